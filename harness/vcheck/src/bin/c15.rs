//! C15 — scalar and fixed-point types encode, convert and round exactly as specified.
//!
//! Every expected value is derived from the OpenType data-type definitions (big-endian two's complement integers,
//! `value = bits / 2^fraction_bits`) with exact `i128` / dyadic-rational arithmetic in this file; nothing is computed
//! with the library under test.
//!
//! Stages
//! * `scalar16`   (exhaustive) every 8/16-bit pattern: u8/i8/u16/i16, F2Dot14/F4Dot12/F6Dot10, FWord/UfWord, GlyphId16,
//!                NameId, Offset16, Version16Dot16::new; bytes<->value, BigEndian<T>, ordering, to_f32/from_f32 identity,
//!                from_f32 at every half-way point and its float neighbours, floor/fract/round, to_fixed.
//! * `scalar24`   (exhaustive) every 24-bit pattern: Uint24/Int24/Offset24, saturation of out-of-range constructor inputs,
//!                F26Dot6::from_i32/to_i32.
//! * `fixed32`    every 32-bit pattern (thorough: all 2^32; quick: every high half x strided/boundary low halves, blocks
//!                around zero and the extremes complete): Fixed / F26Dot6 to_f64/from_f64, half-way floats, to_f2dot14,
//!                to_f26dot6, to_i32, floor/fract/round, ordering; u32/i32/Offset32/Tag/Version16Dot16/MajorMinor/
//!                i64/LongDateTime round trips.
//! * `arith-grid` boundary grid^2 (Mul, Div) and grid^3 (mul_div) for Fixed and F26Dot6 vs i128, i32::MIN included.
//! * `arith-random` proptest operands (uniform, small, grid +- delta, constructed exact ties and near ties).
//! * `float-conv` proptest floats for from_f64/from_f32 of the five fixed types (ties, neighbours, arbitrary bit patterns).
//! * `ot-round`   proptest floats for every `write_fonts::OtRound` impl.
//! * `construct`  proptest u32/i32/i64/usize for the saturating / checked 24-bit constructors and 64-bit round trips.
//! * `float-limits` deterministic inputs at and beyond MIN/MAX of the five fixed types (saturation), +-inf, +-largest float.
//! * `below-half` regression stage: the ten inputs `+-pred(0.5)/ONE` of from_f32/from_f64 (x*ONE + 0.5 used to double-round).
use font_types::{
    BigEndian, F26Dot6, F2Dot14, F4Dot12, F6Dot10, FWord, Fixed, GlyphId, GlyphId16, Int24, LongDateTime, MajorMinor, NameId,
    Nullable, Offset16, Offset24, Offset32, Scalar, Tag, UfWord, Uint24, Version16Dot16,
};
use proptest::prelude::*;
use serde::{Deserialize, Serialize};
use serde_json::json;
use std::cmp::Ordering;
use std::sync::OnceLock;
use vcore::*;
use write_fonts::OtRound;

/// The proptest stages run millions of cases: the distinct-hash set keeps one hash in eight (a lower bound of the number of
/// distinct non-trivial cases); the class counter `<stage>:nontrivial_cases` holds the full count.
fn nontrivial_sampled(stats: &Stats, stage: &str, h: u64) {
    stats.class(&format!("{stage}:nontrivial_cases"));
    if h & 7 == 0 {
        stats.nontrivial(h);
    }
}

/// at most two evidence samples per stage (the engine keeps eight in total)
fn sample_slot(slot: &std::sync::atomic::AtomicU32, stats: &Stats) -> bool {
    stats.want_sample() && slot.fetch_add(1, std::sync::atomic::Ordering::Relaxed) < 2
}
static S_RANDOM: std::sync::atomic::AtomicU32 = std::sync::atomic::AtomicU32::new(0);
static S_FLOAT: std::sync::atomic::AtomicU32 = std::sync::atomic::AtomicU32::new(0);
static S_OT: std::sync::atomic::AtomicU32 = std::sync::atomic::AtomicU32::new(0);
static S_CONS: std::sync::atomic::AtomicU32 = std::sync::atomic::AtomicU32::new(0);

fn fail(sig: &str, msg: String) -> Fail {
    Fail::new(format!("c15|{sig}"), msg)
}

macro_rules! chk {
    ($cond:expr, $sig:expr, $($fmt:tt)+) => {
        if !($cond) {
            return Err(fail($sig, format!($($fmt)+)));
        }
    };
}

// ---------------------------------------------------------------------------------------------------------------------
// exact reference arithmetic

/// `num/den` rounded to nearest, halves away from zero; second value: the quotient is exactly half-way.
fn div_round(num: i128, den: i128) -> (i128, bool) {
    let neg = (num < 0) != (den < 0);
    let n = num.abs();
    let d = den.abs();
    let q = n / d;
    let r = n % d;
    let (q, tie) = if 2 * r > d {
        (q + 1, false)
    } else if 2 * r == d {
        (q + 1, true)
    } else {
        (q, false)
    };
    (if neg { -q } else { q }, tie)
}

fn fits32(v: i128) -> bool {
    v >= i32::MIN as i128 && v <= i32::MAX as i128
}

/// exact value of a finite f64: `m * 2^e`
fn decomp(x: f64) -> (i128, i32) {
    let b = x.to_bits();
    let neg = (b >> 63) != 0;
    let ef = ((b >> 52) & 0x7FF) as i32;
    let frac = b & ((1u64 << 52) - 1);
    let (m, e) = if ef == 0 { (frac, -1074) } else { (frac | (1u64 << 52), ef - 1075) };
    (if neg { -(m as i128) } else { m as i128 }, e)
}

const BIG: i128 = 1i128 << 100;

/// integers nearest to `m * 2^sh` as an inclusive range `lo..=hi` (`lo != hi` only for an exact half); values beyond
/// 2^100 are reported as +-BIG.
fn nearest_ints(m: i128, sh: i32) -> (i128, i128) {
    if m == 0 {
        return (0, 0);
    }
    if sh >= 0 {
        if sh > 40 {
            let b = if m < 0 { -BIG } else { BIG };
            return (b, b);
        }
        let v = m << sh;
        return (v, v);
    }
    let s = -sh;
    if s >= 120 {
        return (0, 0); // |m| < 2^53, so |value| < 2^-67
    }
    let q = m >> s; // floor
    let r = m - (q << s); // 0 <= r < 2^s
    let half = 1i128 << (s - 1);
    match r.cmp(&half) {
        Ordering::Less => (q, q),
        Ordering::Greater => (q + 1, q + 1),
        Ordering::Equal => (q, q + 1),
    }
}

/// floor(x + 1/2) computed exactly for a finite float given as `m * 2^e`
fn round_half_up(m: i128, e: i32) -> i128 {
    if m == 0 {
        return 0;
    }
    if e >= 0 {
        if e > 40 {
            return if m < 0 { -BIG } else { BIG };
        }
        return m << e;
    }
    let s = -e;
    if s >= 120 {
        return 0;
    }
    (m + (1i128 << (s - 1))) >> s
}

fn pred_half64() -> f64 {
    f64::from_bits(0.5f64.to_bits() - 1)
}
fn pred_half32() -> f32 {
    f32::from_bits(0.5f32.to_bits() - 1)
}

/// big-endian unsigned value of a byte string (the OpenType definition of its integer types)
fn be_val(b: &[u8]) -> u64 {
    b.iter().fold(0u64, |a, x| (a << 8) | *x as u64)
}
/// two's complement interpretation of an n-bit pattern
fn twos(p: u64, bits: u32) -> i64 {
    if bits >= 64 {
        p as i64
    } else if p >= (1u64 << (bits - 1)) {
        p as i64 - (1i64 << bits)
    } else {
        p as i64
    }
}

/// bytes -> value -> bytes and the `BigEndian<T>` wrapper for one byte pattern; returns the decoded value
#[inline(always)]
fn scalar_rt<T, const N: usize>(name: &'static str, raw: [u8; N]) -> Result<T, Fail>
where
    T: Scalar<Raw = [u8; N]> + Copy + PartialEq + std::fmt::Debug,
{
    let v = T::from_raw(raw);
    chk!(v.to_raw() == raw, "scalar-bytes-roundtrip", "{name}: from_raw({raw:02x?}).to_raw() = {:02x?}", v.to_raw());
    chk!(T::from_raw(v.to_raw()) == v, "scalar-value-roundtrip", "{name}: value {v:?} does not survive to_raw/from_raw");
    let be = BigEndian::<T>::new(raw);
    chk!(be.get() == v, "bigendian", "{name}: BigEndian::new({raw:02x?}).get() = {:?}, from_raw = {v:?}", be.get());
    chk!(be.be_bytes() == &raw[..], "bigendian", "{name}: BigEndian::new({raw:02x?}).be_bytes() = {:02x?}", be.be_bytes());
    let be2: BigEndian<T> = v.into();
    chk!(be2.be_bytes() == &raw[..], "bigendian", "{name}: BigEndian::from({v:?}).be_bytes() = {:02x?}, want {raw:02x?}", be2.be_bytes());
    chk!(be2 == v, "bigendian", "{name}: BigEndian::from({v:?}) != {v:?}");
    let mut be3 = BigEndian::<T>::new([0u8; N]);
    be3.set(v);
    chk!(be3.be_bytes() == &raw[..], "bigendian", "{name}: BigEndian::set({v:?}) stored {:02x?}, want {raw:02x?}", be3.be_bytes());
    chk!(T::read(&raw[..]) == Some(v), "scalar-read", "{name}: Scalar::read({raw:02x?}) = {:?}", T::read(&raw[..]));
    match BigEndian::<T>::from_slice(&raw[..]) {
        Some(b) => chk!(b.be_bytes() == &raw[..], "bigendian", "{name}: from_slice({raw:02x?}).be_bytes() = {:02x?}", b.be_bytes()),
        None => return Err(fail("bigendian", format!("{name}: from_slice of a slice of the exact length is None"))),
    }
    chk!(T::read(&raw[..N - 1]).is_none(), "scalar-read", "{name}: Scalar::read accepts a short slice");
    Ok(v)
}

/// ordering of two values of a type equals the ordering of their raw integers
macro_rules! ord_chk {
    ($name:expr, $mk:expr, $a:expr, $b:expr) => {{
        let (va, vb) = ($mk($a), $mk($b));
        let want = $a.cmp(&$b);
        chk!(va.cmp(&vb) == want && va.partial_cmp(&vb) == Some(want) && (va < vb) == (want == Ordering::Less) && (va == vb) == (want == Ordering::Equal),
            "ordering", "{}: cmp of raw {:#x} and {:#x} is {:?}, raw integers order {:?}", $name, $a, $b, va.cmp(&vb), want);
    }};
}

/// `got` must be a nearest representable raw value to the float `m*2^(e)` scaled by 2^fb: both candidates are accepted on an
/// exact half; beyond the type's range the nearest representable value is MIN / MAX (saturation, also for +-inf).
/// Returns (exact half, saturated).
#[inline(always)]
fn from_float_chk(name: &str, fb: i32, min: i128, max: i128, m: i128, e: i32, got: i128, input: impl Fn() -> String) -> Result<(bool, bool), Fail> {
    let (lo0, hi0) = nearest_ints(m, e + fb);
    let (lo, hi) = (lo0.clamp(min, max), hi0.clamp(min, max));
    let sat = lo != lo0 || hi != hi0;
    chk!(got >= lo && got <= hi, "from_float-not-nearest", "{name}::from_float({}) = raw {got}, nearest representable raw value is {lo}{}{}",
        input(), if lo != hi { format!(" or {hi} (exact half)") } else { String::new() }, if sat { " (input beyond the range: saturates)" } else { "" });
    Ok((lo != hi, sat))
}

// ---------------------------------------------------------------------------------------------------------------------
// stage scalar16

#[derive(Clone, Debug, Serialize, Deserialize)]
struct Blk {
    start: u32,
    len: u32,
}

macro_rules! fixed16 {
    ($T:ident, $fb:expr, $p:expr, $raw:expr, $iv:expr, $stats:expr) => {{
        let name = stringify!($T);
        let v = scalar_rt::<$T, 2>(name, $raw)?;
        let iv: i64 = $iv;
        chk!(v.to_bits() as i64 == iv, "scalar-decode", "{name}: bytes {:02x?} decode to raw {}, big-endian two's complement value is {iv}", $raw, v.to_bits());
        chk!($T::from_bits(iv as i16) == v && v.to_be_bytes() == $raw, "scalar-decode", "{name}: from_bits/to_be_bytes disagree with from_raw for {iv}");
        let one = (1i64 << $fb) as f64;
        // value = bits / 2^fb, exactly representable in f32 (16 significant bits)
        let want = iv as f64 / one;
        chk!(v.to_f32() as f64 == want, "to_float", "{name}({iv}).to_f32() = {:e}, exact value {want:e}", v.to_f32());
        chk!($T::from_f32(v.to_f32()) == v, "float-roundtrip", "{name}({iv}) -> to_f32 -> from_f32 = raw {}", $T::from_f32(v.to_f32()).to_bits());
        // every half-way point k+1/2 and its float neighbours, and the neighbours of k itself
        for (base, what) in [(iv as f64 + 0.5, "k+1/2"), (iv as f64, "k")] {
            let c = (base / one) as f32; // exact: <= 17 significant bits
            for d in [-1i32, 0, 1] {
                let xf = f32::from_bits((c.to_bits() as i64 + d as i64) as u32);
                if c == 0.0 && d != 0 {
                    continue; // bits-1 of +0.0 is not a neighbour
                }
                if (xf * one as f32).abs() == pred_half32() {
                    $stats.class("from_float:one_ulp_below_half_inputs");
                }
                let (m, e) = decomp(xf as f64);
                let got = $T::from_f32(xf).to_bits() as i128;
                from_float_chk(name, $fb, i16::MIN as i128, i16::MAX as i128, m, e, got, || format!("{xf:e} = ({what}{d:+}ulp)/2^{}, k={iv}", $fb))?;
            }
        }
        // floor / fract / round
        let unit = 1i64 << $fb;
        let fl = iv - iv.rem_euclid(unit);
        chk!(v.floor().to_bits() as i64 == fl, "floor", "{name}({iv}).floor() = raw {}, largest integer <= value is raw {fl}", v.floor().to_bits());
        chk!(v.fract().to_bits() as i64 == iv - fl, "fract", "{name}({iv}).fract() = raw {}, value - floor = raw {}", v.fract().to_bits(), iv - fl);
        if iv + unit / 2 <= i16::MAX as i64 {
            let r = v.round().to_bits() as i64;
            chk!(r % unit == 0 && (r - iv).abs() <= unit / 2, "round", "{name}({iv}).round() = raw {r}, not a nearest integer");
        }
        for q in partners16($p) {
            let (a, b) = ($p as i16, q as i16);
            ord_chk!(name, $T::from_bits, a, b);
        }
    }};
}

fn partners16(p: u16) -> [u16; 5] {
    [p.wrapping_add(1), p.wrapping_sub(1), p ^ 0x8000, !p, p.rotate_left(5) ^ 0x5A5A]
}

fn test16(c: &Blk, stats: &Stats) -> CaseResult {
    for p in c.start..c.start.saturating_add(c.len).min(0x1_0000) {
        let p = p as u16;
        let raw = [(p >> 8) as u8, (p & 0xFF) as u8];
        let iv = twos(p as u64, 16);
        if p < 256 {
            let u = scalar_rt::<u8, 1>("u8", [p as u8])?;
            chk!(u as u64 == be_val(&[p as u8]), "scalar-decode", "u8: byte {p:#x} decodes to {u}");
            let i = scalar_rt::<i8, 1>("i8", [p as u8])?;
            chk!(i as i64 == twos(p as u64, 8), "scalar-decode", "i8: byte {p:#x} decodes to {i}");
        }
        let u = scalar_rt::<u16, 2>("u16", raw)?;
        chk!(u as u64 == be_val(&raw), "scalar-decode", "u16: bytes {raw:02x?} decode to {u}");
        let i = scalar_rt::<i16, 2>("i16", raw)?;
        chk!(i as i64 == iv, "scalar-decode", "i16: bytes {raw:02x?} decode to {i}, two's complement value {iv}");
        fixed16!(F2Dot14, 14, p, raw, iv, stats);
        fixed16!(F4Dot12, 12, p, raw, iv, stats);
        fixed16!(F6Dot10, 10, p, raw, iv, stats);
        // 2.14 -> 16.16 is exact: x/2^14 = 4x/2^16
        chk!(F2Dot14::from_bits(iv as i16).to_fixed().to_bits() as i64 == iv * 4, "f2dot14-to_fixed", "F2Dot14({iv}).to_fixed() = raw {}, exact {}", F2Dot14::from_bits(iv as i16).to_fixed().to_bits(), iv * 4);
        // and back again (spec rule (x + 2) >> 2)
        chk!(Fixed::from_bits((iv * 4) as i32).to_f2dot14().to_bits() as i64 == iv, "to_f2dot14", "Fixed({}).to_f2dot14() != F2Dot14({iv})", iv * 4);

        let fw = scalar_rt::<FWord, 2>("FWord", raw)?;
        chk!(fw.to_i16() as i64 == iv && FWord::new(iv as i16) == fw && fw.to_be_bytes() == raw && i16::from(fw) as i64 == iv && FWord::from(iv as i16) == fw,
            "scalar-decode", "FWord: bytes {raw:02x?} decode to {}, want {iv}", fw.to_i16());
        chk!(fw.to_fixed().to_bits() as i64 == iv << 16, "fword-to_fixed", "FWord({iv}).to_fixed() = raw {}, exact {}", fw.to_fixed().to_bits(), iv << 16);
        let ufw = scalar_rt::<UfWord, 2>("UfWord", raw)?;
        chk!(ufw.to_u16() == p && UfWord::new(p) == ufw && ufw.to_be_bytes() == raw && u16::from(ufw) == p && UfWord::from(p) == ufw,
            "scalar-decode", "UfWord: bytes {raw:02x?} decode to {}, want {p}", ufw.to_u16());
        if p < 0x8000 {
            // representable in 16.16 only below 32768
            chk!(ufw.to_fixed().to_bits() as i64 == (p as i64) << 16, "fword-to_fixed", "UfWord({p}).to_fixed() = raw {}, exact {}", ufw.to_fixed().to_bits(), (p as i64) << 16);
        }
        chk!(Fixed::from_i32(iv as i32).to_bits() as i64 == iv << 16 && Fixed::from(iv as i32) == Fixed::from_i32(iv as i32), "from_i32", "Fixed::from_i32({iv}) = raw {}", Fixed::from_i32(iv as i32).to_bits());
        chk!(Fixed::from_i32(iv as i32).to_i32() as i64 == iv, "to_i32", "Fixed::from_i32({iv}).to_i32() = {}", Fixed::from_i32(iv as i32).to_i32());

        let g = scalar_rt::<GlyphId16, 2>("GlyphId16", raw)?;
        chk!(g.to_u16() == p && g.to_u32() == p as u32 && GlyphId16::new(p) == g && GlyphId16::from(p) == g && g.to_be_bytes() == raw && GlyphId::from(g).to_u32() == p as u32
            && usize::from(g) == p as usize && GlyphId16::try_from(GlyphId::new(p as u32)).ok() == Some(g), "scalar-decode", "GlyphId16: bytes {raw:02x?} decode to {}", g.to_u16());
        let n = scalar_rt::<NameId, 2>("NameId", raw)?;
        chk!(n.to_u16() == p && NameId::new(p) == n && n.to_be_bytes() == raw && NameId::from(p) == n, "scalar-decode", "NameId: bytes {raw:02x?} decode to {}", n.to_u16());
        let o = scalar_rt::<Offset16, 2>("Offset16", raw)?;
        chk!(o.to_u32() == p as u32 && Offset16::new(p) == o && o.is_null() == (p == 0) && o == p as u32, "scalar-decode", "Offset16: bytes {raw:02x?} decode to {}", o.to_u32());
        let no = scalar_rt::<Nullable<Offset16>, 2>("Nullable<Offset16>", raw)?;
        chk!(no.offset().to_u32() == p as u32 && no.is_null() == (p == 0), "scalar-decode", "Nullable<Offset16>: bytes {raw:02x?} decode to {}", no.offset().to_u32());
        for q in partners16(p) {
            ord_chk!("UfWord", UfWord::new, p, q);
            ord_chk!("GlyphId16", GlyphId16::new, p, q);
            ord_chk!("NameId", NameId::new, p, q);
            ord_chk!("Offset16", Offset16::new, p, q);
            let (a, b) = (p as i16, q as i16);
            ord_chk!("FWord", FWord::new, a, b);
            ord_chk!("BigEndian<i16>", BigEndian::<i16>::from, a, b);
            ord_chk!("BigEndian<u16>", BigEndian::<u16>::from, p, q);
        }
        // Version16Dot16: major in the high word, minor in the top nibble of the low word (0x00005000 = 0.5)
        for minor in 0u16..10 {
            let v = Version16Dot16::new(p, minor);
            let want = ((p as u32) << 16) | ((minor as u32) << 12);
            chk!(v.to_be_bytes() == want.to_be_bytes() && v.to_major_minor() == (p, minor), "version", "Version16Dot16::new({p},{minor}) = {:02x?} / {:?}", v.to_be_bytes(), v.to_major_minor());
        }
    }
    let n = c.len as u64;
    stats.evals(n);
    stats.class_n("scalar16:patterns", n);
    stats.nontrivial(hash_json(&("scalar16", c)));
    Ok(())
}

// ---------------------------------------------------------------------------------------------------------------------
// stage scalar24

fn test24(c: &Blk, stats: &Stats) -> CaseResult {
    let mut sat = 0u64;
    for p in c.start..c.start.saturating_add(c.len).min(0x100_0000) {
        let raw = [(p >> 16) as u8, (p >> 8) as u8, p as u8];
        let iv = twos(p as u64, 24);
        let u = scalar_rt::<Uint24, 3>("Uint24", raw)?;
        chk!(u.to_u32() as u64 == be_val(&raw) && u.to_be_bytes() == raw && Uint24::from_be_bytes(raw) == u && u32::from(u) == p && usize::from(u) == p as usize,
            "scalar-decode", "Uint24: bytes {raw:02x?} decode to {}", u.to_u32());
        chk!(Uint24::new(p) == u && Uint24::checked_new(p) == Some(u) && Uint24::try_from(p as usize).ok() == Some(u), "int24-new", "Uint24::new({p}) = {}", Uint24::new(p).to_u32());
        let i = scalar_rt::<Int24, 3>("Int24", raw)?;
        chk!(i.to_i32() as i64 == iv && i.to_be_bytes() == raw && Int24::from_be_bytes(raw) == i && i32::from(i) as i64 == iv,
            "scalar-decode", "Int24: bytes {raw:02x?} decode to {}, two's complement value {iv}", i.to_i32());
        chk!(Int24::new(iv as i32) == i && Int24::checked_new(iv as i32) == Some(i), "int24-new", "Int24::new({iv}) = {}", Int24::new(iv as i32).to_i32());
        let o = scalar_rt::<Offset24, 3>("Offset24", raw)?;
        chk!(o.to_u32() == p && Offset24::new(u) == o && o.is_null() == (p == 0) && o == p, "scalar-decode", "Offset24: bytes {raw:02x?} decode to {}", o.to_u32());
        let no = scalar_rt::<Nullable<Offset24>, 3>("Nullable<Offset24>", raw)?;
        chk!(no.offset().to_u32() == p && no.is_null() == (p == 0), "scalar-decode", "Nullable<Offset24>: bytes {raw:02x?} decode to {}", no.offset().to_u32());
        for q in [(p + 1) & 0xFF_FFFF, p ^ 0x80_0000, !p & 0xFF_FFFF, (p.rotate_left(7) ^ 0x5A_5A5A) & 0xFF_FFFF] {
            ord_chk!("Uint24", Uint24::new, p, q);
            let (a, b) = (iv as i32, twos(q as u64, 24) as i32);
            ord_chk!("Int24", Int24::new, a, b);
        }
        // out-of-range constructor inputs sharing the low 24 bits: saturate (new), None (checked_new)
        for hi in [(p.wrapping_mul(7).wrapping_add(1)) & 0xFF, [0x01u32, 0x7F, 0x80, 0xFF, 0xFE, 0x02, 0x40, 0xC0][(p & 7) as usize]] {
            let big = p | (hi << 24);
            if big > 0xFF_FFFF {
                sat += 1;
                chk!(Uint24::new(big).to_u32() == 0xFF_FFFF && Uint24::checked_new(big).is_none(), "int24-saturate", "Uint24::new({big:#x}) = {:#x}, checked_new = {:?}", Uint24::new(big).to_u32(), Uint24::checked_new(big));
            }
            let sbig = big as i32;
            let want = (sbig as i64).clamp(-0x80_0000, 0x7F_FFFF);
            let inr = want == sbig as i64;
            if !inr {
                sat += 1;
            }
            chk!(Int24::new(sbig).to_i32() as i64 == want && Int24::checked_new(sbig).is_some() == inr, "int24-saturate", "Int24::new({sbig}) = {}, checked_new = {:?}; want {want}", Int24::new(sbig).to_i32(), Int24::checked_new(sbig));
        }
        // 26.6 <-> integer: i * 64 (exact while it fits: |i| < 2^25)
        let f = F26Dot6::from_i32(iv as i32);
        chk!(f.to_bits() as i64 == iv * 64 && f.to_i32() as i64 == iv, "from_i32", "F26Dot6::from_i32({iv}) = raw {}, to_i32 {}", f.to_bits(), f.to_i32());
    }
    let n = c.len as u64;
    stats.evals(n);
    stats.class_n("scalar24:patterns", n);
    stats.class_n("scalar24:saturating_inputs", sat);
    stats.nontrivial(hash_json(&("scalar24", c)));
    Ok(())
}

// ---------------------------------------------------------------------------------------------------------------------
// stage fixed32

#[derive(Clone, Debug, Serialize, Deserialize)]
struct Blk32 {
    /// high 16 bits of the patterns
    hi: u16,
    /// all 65536 low halves (else: boundary lows + a stride of 257 with a per-block offset)
    full: bool,
}

const BOUNDARY_LOWS: [u16; 26] = [
    0, 1, 2, 3, 0x1F, 0x20, 0x21, 0x3F, 0x40, 0x1FF, 0x200, 0x201, 0x3FF, 0x400, 0x7FFE, 0x7FFF, 0x8000, 0x8001, 0xFDFF, 0xFE00, 0xFFDF, 0xFFE0, 0xFFFC, 0xFFFD, 0xFFFE, 0xFFFF,
];

fn lows(c: &Blk32, sample: u32) -> Vec<u16> {
    if c.full {
        (0..=0xFFFFu16).collect()
    } else {
        let mut v = BOUNDARY_LOWS.to_vec();
        let stride = (0x1_0000 / sample) | 1;
        let off = (c.hi as u32).wrapping_mul(0x9E37) % stride;
        v.extend((0..sample).map(|j| ((j * stride + off) & 0xFFFF) as u16));
        v
    }
}

fn quick_sample() -> u32 {
    std::env::var("C15_SAMPLE").ok().and_then(|s| s.parse().ok()).unwrap_or(4096)
}

fn partners32(p: u32) -> [u32; 4] {
    [p.wrapping_add(1), p ^ 0x8000_0000, !p, p.rotate_left(11) ^ 0x5A5A_5A5A]
}

macro_rules! fixed32 {
    ($T:ident, $fb:expr, $p:expr, $x:expr, $stats:expr, $excl:expr, $ties:expr) => {{
        let name = stringify!($T);
        let x: i64 = $x;
        let v = $T::from_bits(x as i32);
        chk!(v.to_bits() as i64 == x && v.to_be_bytes() == ($p as u32).to_be_bytes(), "scalar-decode", "{name}: from_bits({x}).to_bits() = {}", v.to_bits());
        let one = (1i64 << $fb) as f64;
        let want = x as f64 / one; // exact: 32 significant bits, power-of-two divisor
        let f = v.to_f64();
        chk!(f == want, "to_float", "{name}({x}).to_f64() = {f:e}, exact value {want:e}");
        chk!($T::from_f64(f) == v, "float-roundtrip", "{name}({x}) -> to_f64 -> from_f64 = raw {}", $T::from_f64(f).to_bits());
        // the half-way point above x and its two float neighbours
        let c = (x as f64 + 0.5) / one;
        for d in [-1i64, 0, 1] {
            let xf = f64::from_bits((c.to_bits() as i64 + d) as u64);
            if (xf * one).abs() == pred_half64() {
                $excl += 1; // checked like every other input (regression: double rounding of x*ONE + 0.5)
            }
            let (m, e) = decomp(xf);
            let got = $T::from_f64(xf).to_bits() as i128;
            if from_float_chk(name, $fb, i32::MIN as i128, i32::MAX as i128, m, e, got, || format!("{xf:e} = (k+1/2{d:+}ulp)/2^{}, k={x}", $fb))?.0 {
                $ties += 1;
            }
        }
        let unit = 1i64 << $fb;
        let fl = x - x.rem_euclid(unit);
        chk!(v.floor().to_bits() as i64 == fl, "floor", "{name}({x}).floor() = raw {}, largest integer <= value is raw {fl}", v.floor().to_bits());
        chk!(v.fract().to_bits() as i64 == x - fl, "fract", "{name}({x}).fract() = raw {}, value - floor = raw {}", v.fract().to_bits(), x - fl);
        if x + unit / 2 <= i32::MAX as i64 {
            let r = v.round().to_bits() as i64;
            chk!(r % unit == 0 && (r - x).abs() <= unit / 2, "round", "{name}({x}).round() = raw {r}, not a nearest integer");
            // to_i32: nearest integer
            let t = v.to_i32() as i64;
            chk!((t * unit - x).abs() <= unit / 2, "to_i32", "{name}({x}).to_i32() = {t}, value is {want}");
        }
        for q in partners32($p) {
            let (a, b) = ($p as i32, q as i32);
            ord_chk!(name, $T::from_bits, a, b);
            chk!((f < $T::from_bits(b).to_f64()) == (a < b), "ordering", "{name}: to_f64 order of raw {a} and {b} differs from the raw order");
        }
    }};
}

fn test32(c: &Blk32, stats: &Stats) -> CaseResult {
    let ls = lows(c, quick_sample());
    let (mut excl, mut ties, mut n214, mut wrap_skipped) = (0u64, 0u64, 0u64, 0u64);
    for lo in &ls {
        let p: u32 = ((c.hi as u32) << 16) | *lo as u32;
        let raw = [(p >> 24) as u8, (p >> 16) as u8, (p >> 8) as u8, p as u8];
        let x = twos(p as u64, 32);
        let fx = scalar_rt::<Fixed, 4>("Fixed", raw)?;
        chk!(fx.to_bits() as i64 == x, "scalar-decode", "Fixed: bytes {raw:02x?} decode to raw {}, two's complement value {x}", fx.to_bits());
        fixed32!(Fixed, 16, p, x, stats, excl, ties);
        fixed32!(F26Dot6, 6, p, x, stats, excl, ties);
        // 16.16 -> 2.14 per the OpenType variations overview: add 2, arithmetic shift right by 2 (whenever that fits 16 bits)
        let t = (x + 2) >> 2;
        if t >= i16::MIN as i64 && t <= i16::MAX as i64 {
            n214 += 1;
            chk!(fx.to_f2dot14().to_bits() as i64 == t, "to_f2dot14", "Fixed({x}).to_f2dot14() = raw {}, spec (x+2)>>2 = {t}", fx.to_f2dot14().to_bits());
        }
        // 16.16 -> 26.6: a nearest 26.6 value (x/1024)
        if x + 0x200 <= i32::MAX as i64 {
            let y = fx.to_f26dot6().to_bits() as i64;
            chk!((y * 1024 - x).abs() <= 512, "to_f26dot6", "Fixed({x}).to_f26dot6() = raw {y}, exact {}/1024", x);
        } else {
            wrap_skipped += 1;
        }
        let u = scalar_rt::<u32, 4>("u32", raw)?;
        chk!(u as u64 == be_val(&raw), "scalar-decode", "u32: bytes {raw:02x?} decode to {u}");
        let i = scalar_rt::<i32, 4>("i32", raw)?;
        chk!(i as i64 == x, "scalar-decode", "i32: bytes {raw:02x?} decode to {i}");
        let o = scalar_rt::<Offset32, 4>("Offset32", raw)?;
        chk!(o.to_u32() == p && Offset32::new(p) == o && o.is_null() == (p == 0), "scalar-decode", "Offset32: bytes {raw:02x?} decode to {}", o.to_u32());
        let no = scalar_rt::<Nullable<Offset32>, 4>("Nullable<Offset32>", raw)?;
        chk!(no.offset().to_u32() == p && no.is_null() == (p == 0), "scalar-decode", "Nullable<Offset32>: bytes {raw:02x?} decode to {}", no.offset().to_u32());
        let t = scalar_rt::<Tag, 4>("Tag", raw)?;
        chk!(t.to_be_bytes() == raw && Tag::from_u32(p) == t && Tag::new(&raw) == t && Tag::from_be_bytes(raw) == t && t == raw, "scalar-decode", "Tag: bytes {raw:02x?} decode to {:02x?}", t.to_be_bytes());
        let ver = scalar_rt::<Version16Dot16, 4>("Version16Dot16", raw)?;
        chk!(ver.to_be_bytes() == raw && ver.to_major_minor() == ((p >> 16) as u16, ((p >> 12) & 0xF) as u16), "version", "Version16Dot16 {p:#010x}: bytes {:02x?}, major/minor {:?}", ver.to_be_bytes(), ver.to_major_minor());
        let mm = scalar_rt::<MajorMinor, 4>("MajorMinor", raw)?;
        chk!(mm.major == (p >> 16) as u16 && mm.minor == p as u16 && mm == MajorMinor::new((p >> 16) as u16, p as u16) && mm.to_be_bytes() == raw, "version", "MajorMinor {p:#010x}: {mm:?}");
        chk!(GlyphId::new(p).to_u32() == p && GlyphId::from(p).to_u32() == p && u32::from(GlyphId::new(p)) == p, "scalar-decode", "GlyphId::new({p}).to_u32() = {}", GlyphId::new(p).to_u32());
        for q in partners32(p) {
            ord_chk!("Offset32", Offset32::new, p, q);
            ord_chk!("Tag", Tag::from_u32, p, q);
            ord_chk!("GlyphId", GlyphId::new, p, q);
            // mixed-width glyph ids compare by value in both directions (a 16-bit id widened, never a 32-bit id truncated)
            for q16 in [q as u16, (q >> 16) as u16, p as u16] {
                let (g, h) = (GlyphId::new(p), GlyphId16::new(q16));
                let want = p.cmp(&(q16 as u32));
                chk!(g.partial_cmp(&h) == Some(want) && h.partial_cmp(&g) == Some(want.reverse()) && (g == h) == (want == Ordering::Equal) && (h == g) == (want == Ordering::Equal)
                    && (g < h) == (want == Ordering::Less) && (h < g) == (want == Ordering::Greater),
                    "ordering", "GlyphId({p:#x}) against GlyphId16({q16:#x}): partial_cmp {:?} / reverse {:?}, values order {:?}", g.partial_cmp(&h), h.partial_cmp(&g), want);
            }
        }
        // 64-bit patterns built from the 32-bit one
        let raw8 = [raw[0], raw[1], raw[2], raw[3], raw[3] ^ raw[0], raw[2].wrapping_mul(31), !raw[1], raw[0].wrapping_add(raw[3])];
        let l = twos(be_val(&raw8), 64);
        let i = scalar_rt::<i64, 8>("i64", raw8)?;
        chk!(i == l, "scalar-decode", "i64: bytes {raw8:02x?} decode to {i}, want {l}");
        let ldt = scalar_rt::<LongDateTime, 8>("LongDateTime", raw8)?;
        chk!(ldt.as_secs() == l && LongDateTime::new(l) == ldt && ldt.to_be_bytes() == raw8, "scalar-decode", "LongDateTime: bytes {raw8:02x?} decode to {}", ldt.as_secs());
    }
    let n = ls.len() as u64;
    stats.evals(n);
    stats.class_n("fixed32:patterns", n);
    stats.class_n("fixed32:to_f2dot14_representable", n214);
    stats.class_n("fixed32:exact_half_inputs", ties);
    stats.class_n("fixed32:to_f26dot6_add_would_overflow_skipped", wrap_skipped);
    stats.class_n("from_float:one_ulp_below_half_inputs", excl);
    stats.nontrivial(hash_json(&("fixed32", c)));
    Ok(())
}

// ---------------------------------------------------------------------------------------------------------------------
// binary arithmetic

fn grid() -> &'static [i32] {
    static G: OnceLock<Vec<i32>> = OnceLock::new();
    G.get_or_init(|| {
        let mut s = std::collections::BTreeSet::new();
        let mut add = |v: i64| {
            for w in [v, -v] {
                if w >= i32::MIN as i64 && w <= i32::MAX as i64 {
                    s.insert(w as i32);
                }
            }
        };
        for v in [
            0i64, 1, 2, 3, 5, 7, 10, 63, 64, 65, 100, 1000, 0x3FFF, 0x7FFF, 0x8000, 0x8001, 0xFFFF, 0x10000, 0x10001, 0x18000, 0x17FFF, 0x18001, 0xC000, 0x4000, 0x12345, 12345678,
            46340, 46341, 0xB504, 0xB505, 0x16A09, 0x2_0000, 0x3_0000, 0x7FFF_FFFF, 0x7FFF_FFFE, 0x7FFF_8000, 0x7FFF_7FFF, 0x7FFF_0000, 0x8000_0000, 0x5555_5555, 0x2AAA_AAAA, 0x3333_3333,
            0x0F0F_0F0F, 0x1234_5678, 0x7654_3210, 0x00FF_00FF, 0x6487E /* pi in 16.16 */, 0x2B7E1,
        ] {
            add(v);
        }
        for k in 0..32 {
            for d in [-1i64, 0, 1] {
                add((1i64 << k) + d);
            }
            add(3i64 << k);
            add(5i64 << k);
        }
        s.into_iter().collect()
    })
}

const SAT: i32 = 0x7FFF_FFFF;

/// Fixed-style ops on raw i32 bits for a type with the `fixed_mul_div!` operators
trait Arith: Copy {
    const NAME: &'static str;
    const LNAME: &'static str;
    fn mul(a: i32, b: i32) -> i32;
    fn div(a: i32, b: i32) -> i32;
    fn mul_div(a: i32, b: i32, c: i32) -> i32;
}
#[derive(Clone, Copy)]
struct AFixed;
#[derive(Clone, Copy)]
struct A26;
impl Arith for AFixed {
    const NAME: &'static str = "Fixed";
    const LNAME: &'static str = "fixed";
    #[inline(always)]
    fn mul(a: i32, b: i32) -> i32 {
        let mut v = Fixed::from_bits(a);
        v *= Fixed::from_bits(b);
        let w = Fixed::from_bits(a) * Fixed::from_bits(b);
        if v == w {
            w.to_bits()
        } else {
            !w.to_bits()
        }
    }
    #[inline(always)]
    fn div(a: i32, b: i32) -> i32 {
        (Fixed::from_bits(a) / Fixed::from_bits(b)).to_bits()
    }
    #[inline(always)]
    fn mul_div(a: i32, b: i32, c: i32) -> i32 {
        Fixed::from_bits(a).mul_div(Fixed::from_bits(b), Fixed::from_bits(c)).to_bits()
    }
}
impl Arith for A26 {
    const NAME: &'static str = "F26Dot6";
    const LNAME: &'static str = "f26dot6";
    #[inline(always)]
    fn mul(a: i32, b: i32) -> i32 {
        (F26Dot6::from_bits(a) * F26Dot6::from_bits(b)).to_bits()
    }
    #[inline(always)]
    fn div(a: i32, b: i32) -> i32 {
        let mut v = F26Dot6::from_bits(a);
        v /= F26Dot6::from_bits(b);
        let w = F26Dot6::from_bits(a) / F26Dot6::from_bits(b);
        if v == w {
            w.to_bits()
        } else {
            !w.to_bits()
        }
    }
    #[inline(always)]
    fn mul_div(a: i32, b: i32, c: i32) -> i32 {
        F26Dot6::from_bits(a).mul_div(F26Dot6::from_bits(b), F26Dot6::from_bits(c)).to_bits()
    }
}

#[derive(Default)]
struct ArithCount {
    mul: u64,
    div: u64,
    muldiv: u64,
    div0: u64,
    ties: u64,
    unrepresentable: u64,
    with_min: u64,
}

/// Mul and Div of one operand pair. `a*b/2^16` and `a*2^16/b` (FT_MulFix / FT_DivFix scale, for both types).
#[inline(always)]
fn pair_chk<A: Arith>(a: i32, b: i32, n: &mut ArithCount) -> CaseResult {
    let (exact, tie) = div_round(a as i128 * b as i128, 65536);
    if fits32(exact) {
        n.mul += 1;
        n.ties += tie as u64;
        let got = A::mul(a, b);
        chk!(got as i128 == exact, &format!("{}-mul", A::LNAME), "{}({a:#x}) * {}({b:#x}) = raw {got}, exact a*b/65536 rounded half away from zero = {exact}{}", A::NAME, A::NAME, if tie { " (exact half)" } else { "" });
    } else {
        n.unrepresentable += 1;
    }
    if b != 0 {
        let (exact, tie) = div_round((a as i128) << 16, b as i128);
        if fits32(exact) {
            n.div += 1;
            n.ties += tie as u64;
            n.with_min += (a == i32::MIN || b == i32::MIN) as u64;
            let got = A::div(a, b);
            chk!(got as i128 == exact, &format!("{}-div", A::LNAME), "{}({a:#x}) / {}({b:#x}) = raw {got}, exact a*65536/b rounded half away from zero = {exact}{}", A::NAME, A::NAME, if tie { " (exact half)" } else { "" });
        } else {
            n.unrepresentable += 1;
        }
    } else {
        n.div0 += 1;
        let got = A::div(a, 0);
        let ok = match a.cmp(&0) {
            Ordering::Greater => got == SAT,
            Ordering::Less => got == -SAT,
            Ordering::Equal => got == SAT || got == -SAT,
        };
        chk!(ok, &format!("{}-div-by-zero", A::LNAME), "{}({a:#x}) / 0 = raw {got:#x}, documented saturation is +-0x7FFFFFFF with the sign of the dividend", A::NAME);
    }
    Ok(())
}

#[inline(always)]
fn triple_chk<A: Arith>(a: i32, b: i32, c: i32, n: &mut ArithCount) -> CaseResult {
    let num = a as i128 * b as i128;
    if c != 0 {
        let (exact, tie) = div_round(num, c as i128);
        if fits32(exact) {
            n.muldiv += 1;
            n.ties += tie as u64;
            n.with_min += (a == i32::MIN || b == i32::MIN || c == i32::MIN) as u64;
            let got = A::mul_div(a, b, c);
            chk!(got as i128 == exact, &format!("{}-mul_div", A::LNAME), "{}({a:#x}).mul_div({b:#x}, {c:#x}) = raw {got}, exact a*b/c rounded half away from zero = {exact}{}", A::NAME, if tie { " (exact half)" } else { "" });
        } else {
            n.unrepresentable += 1;
        }
    } else {
        n.div0 += 1;
        let got = A::mul_div(a, b, 0);
        let ok = match num.cmp(&0) {
            Ordering::Greater => got == SAT,
            Ordering::Less => got == -SAT,
            Ordering::Equal => got == SAT || got == -SAT,
        };
        chk!(ok, &format!("{}-mul_div-by-zero", A::LNAME), "{}({a:#x}).mul_div({b:#x}, 0) = raw {got:#x}, documented saturation is +-0x7FFFFFFF with the sign of the product", A::NAME);
    }
    Ok(())
}

fn flush(n: &ArithCount, stats: &Stats, pre: &str) {
    stats.evals(n.mul + n.div + n.muldiv + n.div0);
    for (k, v) in [("mul_representable", n.mul), ("div_representable", n.div), ("mul_div_representable", n.muldiv), ("by_zero", n.div0), ("exact_half", n.ties), ("unrepresentable_skipped", n.unrepresentable), ("div_or_mul_div_with_i32_MIN", n.with_min)] {
        stats.class_n(&format!("{pre}:{k}"), v);
    }
}

#[derive(Clone, Debug, Serialize, Deserialize)]
struct GridCase {
    a: i32,
}

fn test_grid(c: &GridCase, stats: &Stats) -> CaseResult {
    let g = grid();
    let mut n = ArithCount::default();
    let a = c.a;
    let r = (|| -> CaseResult {
        for &b in g {
            pair_chk::<AFixed>(a, b, &mut n)?;
            pair_chk::<A26>(a, b, &mut n)?;
            for &cc in g {
                triple_chk::<AFixed>(a, b, cc, &mut n)?;
                triple_chk::<A26>(a, b, cc, &mut n)?;
            }
        }
        Ok(())
    })();
    flush(&n, stats, "grid");
    stats.nontrivial(hash_json(&("grid", c)));
    r
}

#[derive(Clone, Debug, Serialize, Deserialize)]
struct Ops {
    a: i32,
    b: i32,
    c: i32,
}

fn clamp32(v: i64) -> i32 {
    v.clamp(i32::MIN as i64, i32::MAX as i64) as i32
}

fn operand() -> BoxedStrategy<i32> {
    prop_oneof![
        3 => any::<i32>(),
        2 => -0x2_0000i32..=0x2_0000,
        2 => -0x100_0000i32..=0x100_0000,
        3 => (proptest::sample::select(grid().to_vec()), -3i64..=3).prop_map(|(g, d)| clamp32(g as i64 + d)),
        1 => proptest::sample::select(vec![i32::MIN, i32::MIN + 1, i32::MAX, i32::MAX - 1, 0, 1, -1, 0x8000, -0x8000, 0x10000, -0x10000]),
    ]
    .boxed()
}

fn sign() -> impl Strategy<Value = i64> {
    prop_oneof![Just(1i64), Just(-1i64)]
}

fn small_or_wide(bits: u32) -> BoxedStrategy<i64> {
    prop_oneof![0i64..8, 0i64..(1i64 << bits)].boxed()
}

/// magnitude with a uniformly drawn bit length 0..=maxlen and a random mantissa (log-uniform over the magnitudes)
fn bitlen_mag(maxlen: u32) -> impl Strategy<Value = i64> {
    (0u32..=maxlen, any::<u32>()).prop_map(|(l, r)| if l == 0 { 0 } else { (1i64 << (l - 1)) | (r as i64 & ((1i64 << (l - 1)) - 1)) })
}
fn bitlen_operand() -> impl Strategy<Value = i32> {
    (bitlen_mag(31), sign()).prop_map(|(m, s)| clamp32(s * m))
}
/// divisors of every magnitude class, with extra weight next to MAX / MIN (distance log-uniform up to 2^27)
fn divisor() -> BoxedStrategy<i32> {
    prop_oneof![
        3 => bitlen_operand(),
        2 => (bitlen_mag(27), any::<bool>()).prop_map(|(d, top)| if top { clamp32(i32::MAX as i64 - d) } else { clamp32(i32::MIN as i64 + d) }),
        1 => operand(),
    ]
    .boxed()
}
/// exponent of a power of two that an intermediate may straddle: the 32-bit and 48-bit limits weighted, every other one too
fn straddle_exp() -> impl Strategy<Value = u32> {
    prop_oneof![2 => Just(32u32), 1 => Just(31u32), 1 => Just(47u32), 1 => Just(48u32), 1 => Just(16u32), 1 => Just(15u32), 3 => 2u32..=62]
}
/// signed offset with a log-uniform magnitude below 2^27
fn offset27() -> impl Strategy<Value = i64> {
    (bitlen_mag(27), sign()).prop_map(|(m, s)| m * s)
}

fn ops_strategy() -> impl Strategy<Value = Ops> {
    let free = (operand(), operand(), operand()).prop_map(|(a, b, c)| Ops { a, b, c });
    // every combination of operand magnitude classes (bit lengths 0..=31 independently)
    let free_bitlen = (bitlen_operand(), bitlen_operand(), divisor()).prop_map(|(a, b, c)| Ops { a, b, c });
    // |a*b| (or the rounded numerator |a*b| + |c|/2 of mul_div, or |a*b| + 2^15 of Mul) within +-2^27 of a power of two 2^t:
    // a from a bit-length class (half of the time near t/2), b = (2^t + off [- |c|/2]) / a; divisor c of any class
    let straddle = (straddle_exp(), any::<u32>(), any::<bool>(), any::<u32>(), offset27(), 0u8..3, divisor(), sign(), sign(), any::<bool>()).prop_map(
        |(t, lsel, balanced, mant, off, round, c, s1, s2, swap)| {
            let (lo, hi) = (t.saturating_sub(31).max(1), t.min(31));
            let (lo, hi) = if balanced { ((t / 2).saturating_sub(1).clamp(lo, hi), (t / 2 + 2).clamp(lo, hi)) } else { (lo, hi) };
            let l = lo + ((lsel as u64 * (hi - lo + 1) as u64) >> 32) as u32;
            let a = (1i64 << (l - 1)) | (mant as i64 & ((1i64 << (l - 1)) - 1));
            let sub = match round {
                0 => 0,
                1 => (c as i64).abs() / 2, // numerator of mul_div
                _ => 0x8000,               // numerator of Mul
            };
            let target = (1i128 << t) + off as i128 - sub as i128;
            let b = (target / a as i128).clamp(0, i32::MAX as i128) as i64;
            let (a, b) = (clamp32(s1 * a), clamp32(s2 * b));
            let (a, b) = if swap { (b, a) } else { (a, b) };
            Ops { a, b, c }
        },
    );
    // quotient of Div next to a power of two (incl. the 2^31 limit of representability): b = a*2^16 / (2^t + off)
    let div_edge = (bitlen_operand(), 1u32..=32, offset27(), -1i64..=1, sign(), divisor()).prop_map(|(a, t, off, d, s2, c)| {
        let q = ((1i64 << t) + off % (1i64 << t)).max(1);
        let b = (((a as i64).abs() << 16) / q + d).clamp(0, i32::MAX as i64);
        Ops { a, b: clamp32(s2 * b), c }
    });
    // a*b = odd * 2^15: the product is exactly half-way between two 16.16 values
    let mul_tie = (0u32..=15, small_or_wide(14), small_or_wide(14), sign(), sign(), operand())
        .prop_map(|(k, m, n, s1, s2, c)| Ops { a: clamp32(s1 * ((2 * m + 1) << k)), b: clamp32(s2 * ((2 * n + 1) << (15 - k))), c });
    // a = e(2q+1), b = e*2^17: a*2^16/b = (2q+1)/2
    let div_tie = (1i64..(1 << 14), small_or_wide(15), sign(), sign(), operand()).prop_map(|(e, q, s1, s2, c)| Ops { a: clamp32(s1 * e * (2 * q + 1)), b: clamp32(s2 * (e << 17)), c });
    // a = d*u, b = 2q+1, c = 2d*u... a*b/c = (2q+1)/2
    let md_tie = (1i64..(1 << 30), small_or_wide(30), sign(), sign(), sign(), any::<bool>()).prop_map(|(d, q, s1, s2, s3, swap)| {
        let (a, b) = (clamp32(s1 * d), clamp32(s2 * (2 * q + 1)));
        let (a, b) = if swap { (b, a) } else { (a, b) };
        Ops { a, b, c: clamp32(s3 * 2 * d) }
    });
    let ties = prop_oneof![mul_tie, div_tie, md_tie];
    // near ties: one operand moved by one unit
    let near = (prop_oneof![
        (0u32..=15, small_or_wide(14), small_or_wide(14), sign(), sign(), operand())
            .prop_map(|(k, m, n, s1, s2, c)| Ops { a: clamp32(s1 * ((2 * m + 1) << k)), b: clamp32(s2 * ((2 * n + 1) << (15 - k))), c }),
        (1i64..(1 << 14), small_or_wide(15), sign(), sign(), operand()).prop_map(|(e, q, s1, s2, c)| Ops { a: clamp32(s1 * e * (2 * q + 1)), b: clamp32(s2 * (e << 17)), c }),
        (1i64..(1 << 30), small_or_wide(30), sign(), sign(), sign()).prop_map(|(d, q, s1, s2, s3)| Ops { a: clamp32(s1 * d), b: clamp32(s2 * (2 * q + 1)), c: clamp32(s3 * 2 * d) }),
    ], 0usize..3, prop_oneof![Just(-1i64), Just(1i64)])
        .prop_map(|(o, which, d)| match which {
            0 => Ops { a: clamp32(o.a as i64 + d), ..o },
            1 => Ops { b: clamp32(o.b as i64 + d), ..o },
            _ => Ops { c: clamp32(o.c as i64 + d), ..o },
        });
    let by_zero = (operand(), operand(), any::<bool>()).prop_map(|(a, b, z)| if z { Ops { a, b: 0, c: b } } else { Ops { a, b, c: 0 } });
    prop_oneof![5 => free, 3 => free_bitlen, 5 => straddle, 1 => div_edge, 3 => ties, 2 => near, 1 => by_zero]
}

fn test_ops(o: &Ops, stats: &Stats) -> CaseResult {
    let mut n = ArithCount::default();
    let r = (|| -> CaseResult {
        pair_chk::<AFixed>(o.a, o.b, &mut n)?;
        pair_chk::<A26>(o.a, o.b, &mut n)?;
        pair_chk::<AFixed>(o.b, o.c, &mut n)?;
        pair_chk::<A26>(o.c, o.a, &mut n)?;
        triple_chk::<AFixed>(o.a, o.b, o.c, &mut n)?;
        triple_chk::<A26>(o.a, o.b, o.c, &mut n)?;
        Ok(())
    })();
    stats.evals(n.mul + n.div + n.muldiv + n.div0);
    let neg = o.a < 0 || o.b < 0 || o.c < 0;
    let min = o.a == i32::MIN || o.b == i32::MIN || o.c == i32::MIN;
    // one class per case (one lock): which of {negative operand, exact half, i32::MIN operand, division by zero} it has
    let key = ["random:plain", "random:neg", "random:half", "random:neg+half"][neg as usize + 2 * (n.ties > 0) as usize];
    stats.class(key);
    if min {
        stats.class(if n.with_min > 0 { "random:i32_MIN_operand_in_representable_div_or_mul_div" } else { "random:i32_MIN_operand" });
    }
    if n.div0 > 0 {
        stats.class("random:by_zero");
    }
    // intermediates next to the 32-bit limit, with a large divisor (measured, see the rule)
    let prod = (o.a as i128 * o.b as i128).abs();
    let cabs = (o.c as i128).abs();
    if cabs >= 1 << 30 {
        if (prod - (1i128 << 32)).abs() <= 1 << 27 {
            stats.class("random:product_within_2^27_of_2^32_and_divisor_ge_2^30");
        }
        if (prod + cabs / 2 - (1i128 << 32)).abs() <= 1 << 27 {
            stats.class("random:mul_div_numerator_within_2^27_of_2^32_and_divisor_ge_2^30");
            if (prod + cabs / 2 - (1i128 << 32)).abs() <= 1 << 23 && (o.a as i64).abs().max((o.b as i64).abs()) < 1 << 17 {
                stats.class("random:mul_div_numerator_within_2^23_of_2^32_both_factors_below_2^17");
            }
        }
    }
    if (prod - (1i128 << 47)).abs() <= 1 << 42 || (prod - (1i128 << 48)).abs() <= 1 << 43 {
        stats.class("random:product_near_2^47_or_2^48");
    }
    if n.mul + n.div + n.muldiv == 0 {
        stats.class("random:case_nothing_representable");
    } else if neg || n.ties > 0 {
        nontrivial_sampled(stats, "random", hash_json(o));
        if n.ties > 0 && S_RANDOM.load(std::sync::atomic::Ordering::Relaxed) < 2 && sample_slot(&S_RANDOM, stats) {
            stats.sample(json!({"stage": "arith-random", "a": o.a, "b": o.b, "c": o.c, "exact_halves": n.ties}));
        }
    }
    r
}

// ---------------------------------------------------------------------------------------------------------------------
// float -> fixed

#[derive(Clone, Debug, Serialize, Deserialize)]
struct FloatCase {
    /// 0 Fixed, 1 F26Dot6 (f64 input); 2 F2Dot14, 3 F4Dot12, 4 F6Dot10 (f32 input)
    ty: u8,
    /// bit pattern of the input float (f32 patterns in the low 32 bits)
    bits: u64,
}

const FB: [i32; 5] = [16, 6, 14, 12, 10];

fn float_strategy() -> impl Strategy<Value = FloatCase> {
    (0u8..5).prop_flat_map(|ty| {
        let wide = ty < 2;
        let fb = FB[ty as usize];
        let (min, max) = if wide { (i32::MIN as i64, i32::MAX as i64) } else { (i16::MIN as i64, i16::MAX as i64) };
        let k = prop_oneof![
            3 => min..=max,
            2 => -70_000i64..=70_000,
            2 => -3i64..=3,
            1 => (0i64..4).prop_map(move |d| min + d),
            1 => (0i64..4).prop_map(move |d| max - d),
        ]
        .prop_map(move |k| k.clamp(min, max));
        // fraction in units of 2^-8 (exact in f32 next to a 16-bit integer part, and in f64)
        let frac = prop_oneof![3 => Just(128i64), 3 => Just(-128i64), 1 => Just(0i64), 2 => -255i64..=255, 1 => Just(127i64), 1 => Just(-127i64), 1 => Just(129i64)];
        let built = (k, frac, -3i64..=3).prop_map(move |(k, frac, ulps)| {
            let v = k as f64 + frac as f64 / 256.0; // exact
            let one = (1i64 << fb) as f64;
            if wide {
                let x = v / one;
                FloatCase { ty, bits: (x.to_bits() as i64).wrapping_add(if x == 0.0 { 0 } else { ulps }) as u64 }
            } else {
                let x = (v / one) as f32; // <= 24 significant bits: exact
                FloatCase { ty, bits: (x.to_bits() as i64 + if x == 0.0 { 0 } else { ulps }) as u64 & 0xFFFF_FFFF }
            }
        });
        // arbitrary finite floats whose magnitude is below the type's range (incl. subnormals)
        let int_bits = if wide { 32 - fb } else { 16 - fb };
        let arbitrary = (any::<bool>(), any::<u64>(), prop_oneof![3 => 0i32..40, 1 => 40i32..1100]).prop_map(move |(neg, mant, down)| {
            if wide {
                let e = (1023 + int_bits - 2 - down).max(0) as u64;
                FloatCase { ty, bits: ((neg as u64) << 63) | (e << 52) | (mant & ((1 << 52) - 1)) }
            } else {
                let e = (127 + int_bits - 2 - down).max(0) as u64;
                FloatCase { ty, bits: ((neg as u64) << 31) | (e << 23) | (mant & ((1 << 23) - 1)) }
            }
        });
        // (MIN or MAX) + j/4 raw units, moved by a few ulps: around and just beyond the limits
        let near_limit = (any::<bool>(), -64i64..=64, -3i64..=3).prop_map(move |(top, j, ulps)| {
            let x = ((if top { max } else { min }) as f64 + j as f64 / 4.0) / (1i64 << fb) as f64; // exact
            if wide {
                FloatCase { ty, bits: (x.to_bits() as i64 + ulps) as u64 }
            } else {
                FloatCase { ty, bits: ((x as f32).to_bits() as i64 + ulps) as u64 & 0xFFFF_FFFF }
            }
        });
        // finite floats and infinities of any magnitude at or above the type's range
        let beyond = (any::<bool>(), any::<u64>(), prop_oneof![3 => 0i32..8, 2 => 8i32..2000]).prop_map(move |(neg, mant, up)| {
            if wide {
                let e = (1023 + int_bits - 2 + up).min(0x7FF) as u64;
                let mant = if e == 0x7FF { 0 } else { mant & ((1 << 52) - 1) };
                FloatCase { ty, bits: ((neg as u64) << 63) | (e << 52) | mant }
            } else {
                let e = (127 + int_bits - 2 + up).min(0xFF) as u64;
                let mant = if e == 0xFF { 0 } else { mant & ((1 << 23) - 1) };
                FloatCase { ty, bits: ((neg as u64) << 31) | (e << 23) | mant }
            }
        });
        prop_oneof![6 => built, 2 => arbitrary, 2 => near_limit, 1 => beyond]
    })
}

fn test_float(c: &FloatCase, stats: &Stats) -> CaseResult {
    let fb = FB[c.ty as usize % 5];
    let (name, got, m, e, min, max, shown, known) = if c.ty < 2 {
        let x = f64::from_bits(c.bits);
        if x.is_nan() {
            stats.class("float:nan_skipped");
            return Ok(());
        }
        let (m, e) = if x.is_infinite() { (if x < 0.0 { -BIG } else { BIG }, 0) } else { decomp(x) };
        let known = (x * (1i64 << fb) as f64).abs() == pred_half64();
        let (name, got) = if c.ty == 0 { ("Fixed", Fixed::from_f64(x).to_bits() as i128) } else { ("F26Dot6", F26Dot6::from_f64(x).to_bits() as i128) };
        (name, got, m, e, i32::MIN as i128, i32::MAX as i128, format!("{x:e}"), known)
    } else {
        let x = f32::from_bits(c.bits as u32);
        if x.is_nan() {
            stats.class("float:nan_skipped");
            return Ok(());
        }
        let (m, e) = if x.is_infinite() { (if x < 0.0 { -BIG } else { BIG }, 0) } else { decomp(x as f64) };
        let known = (x * (1i64 << fb) as f32).abs() == pred_half32();
        let (name, got) = match c.ty {
            2 => ("F2Dot14", F2Dot14::from_f32(x).to_bits() as i128),
            3 => ("F4Dot12", F4Dot12::from_f32(x).to_bits() as i128),
            _ => ("F6Dot10", F6Dot10::from_f32(x).to_bits() as i128),
        };
        (name, got, m, e, i16::MIN as i128, i16::MAX as i128, format!("{x:e}f32"), known)
    };
    if known {
        stats.class("from_float:one_ulp_below_half_inputs");
    }
    let (tie, sat) = from_float_chk(name, fb, min, max, m, e, got, || shown.clone())?;
    stats.class(&format!("float:{name}"));
    if sat {
        stats.class(if m < 0 { "float:saturates_to_MIN" } else { "float:saturates_to_MAX" });
    } else if got == min || got == max {
        stats.class("float:in_range_result_is_MIN_or_MAX");
    }
    if tie {
        stats.class("float:exact_half");
        let away = if m > 0 { nearest_ints(m, e + fb).1 } else { nearest_ints(m, e + fb).0 };
        stats.class(if got == away { "float:exact_half_resolved_away_from_zero" } else { "float:exact_half_resolved_toward_zero" });
    }
    if e + fb < -60 {
        stats.class("float:tiny");
    }
    if tie || m < 0 {
        nontrivial_sampled(stats, "float", hash_json(c));
        if S_FLOAT.load(std::sync::atomic::Ordering::Relaxed) < 2 && sample_slot(&S_FLOAT, stats) {
            stats.sample(json!({"stage": "float-conv", "type": name, "input": shown, "raw_result": got as i64, "exact_half": tie, "saturated": sat}));
        }
    }
    Ok(())
}

/// Deterministic inputs at and beyond the limits of each type: (MIN or MAX) + j/4 raw units for j in -12..=12, each moved by
/// -2..2 float ulps; 2*MIN, 2*MAX, +-2^40 raw units, +-largest finite float, +-infinity.
fn limit_cases() -> Vec<FloatCase> {
    let mut v = vec![];
    for ty in 0u8..5 {
        let wide = ty < 2;
        let fb = FB[ty as usize];
        let one = (1i64 << fb) as f64;
        let (min, max) = if wide { (i32::MIN as f64, i32::MAX as f64) } else { (i16::MIN as f64, i16::MAX as f64) };
        let mut push = |x: f64, ulps: i64| {
            if wide {
                v.push(FloatCase { ty, bits: (x.to_bits() as i64 + ulps) as u64 });
            } else {
                v.push(FloatCase { ty, bits: ((x as f32).to_bits() as i64 + ulps) as u64 & 0xFFFF_FFFF });
            }
        };
        for base in [min, max] {
            for j in -12i64..=12 {
                for u in -2i64..=2 {
                    push((base + j as f64 / 4.0) / one, u); // exact: <= 35 (f64) / 19 (f32) significant bits
                }
            }
            push(2.0 * base / one, 0);
            push(base * 3.0 / one, 0);
        }
        for s in [-1.0f64, 1.0] {
            push(s * (1u64 << 40) as f64, 0);
            push(s * 1e30, 0);
            push(s * if wide { f64::MAX } else { f32::MAX as f64 }, 0);
            push(s * f64::INFINITY, 0);
        }
    }
    v
}

/// the ten inputs +-pred(1/2)/ONE
fn test_below_half(c: &FloatCase, _stats: &Stats) -> CaseResult {
    let fb = FB[c.ty as usize % 5];
    let neg = c.bits != 0;
    let (name, got, shown) = if c.ty < 2 {
        let x = pred_half64() / (1i64 << fb) as f64 * if neg { -1.0 } else { 1.0 };
        if c.ty == 0 { ("Fixed", Fixed::from_f64(x).to_bits() as i64, format!("{x:e}")) } else { ("F26Dot6", F26Dot6::from_f64(x).to_bits() as i64, format!("{x:e}")) }
    } else {
        let x = pred_half32() / (1i64 << fb) as f32 * if neg { -1.0 } else { 1.0 };
        let got = match c.ty {
            2 => F2Dot14::from_f32(x).to_bits(),
            3 => F4Dot12::from_f32(x).to_bits(),
            _ => F6Dot10::from_f32(x).to_bits(),
        };
        (["F2Dot14", "F4Dot12", "F6Dot10"][c.ty as usize - 2], got as i64, format!("{x:e}f32"))
    };
    // x * ONE = +-(1/2 - 1ulp): strictly closer to 0 than to +-1
    chk!(got == 0, "from_float-below-half", "{name}::from_float({shown}) = raw {got}; the input scaled by 2^{fb} is 1/2 minus one float ulp, nearest representable raw value is 0");
    Ok(())
}

// ---------------------------------------------------------------------------------------------------------------------
// OtRound

#[derive(Clone, Debug, Serialize, Deserialize)]
struct OtCase {
    /// f64 bit pattern
    x: u64,
    /// f32 bit pattern
    y: u32,
}

fn ot_strategy() -> impl Strategy<Value = OtCase> {
    let k = || {
        prop_oneof![
            3 => -4i64..=4,
            2 => -40_000i64..=70_000,
            2 => proptest::sample::select(vec![-32770i64, -32769, -32768, -32767, 32766, 32767, 32768, 65534, 65535, 65536, -1, 0]),
            1 => -(1i64 << 21)..(1i64 << 21),
        ]
    };
    let frac = || prop_oneof![3 => Just(128i64), 3 => Just(-128i64), 1 => Just(0i64), 2 => -255i64..=255];
    let x64 = prop_oneof![
        6 => (k(), frac(), -2i64..=2).prop_map(|(k, f, u)| {
            let v = k as f64 + f as f64 / 256.0;
            if v == 0.0 { v.to_bits() } else { (v.to_bits() as i64 + u) as u64 }
        }),
        1 => (-(1i64 << 50)..(1i64 << 50), frac()).prop_map(|(k, f)| (k as f64 + f as f64 / 256.0).to_bits()),
        2 => (any::<bool>(), 0u64..0x7FF, any::<u64>()).prop_map(|(n, e, m)| ((n as u64) << 63) | (e << 52) | (m & ((1 << 52) - 1))),
        1 => proptest::sample::select(vec![f64::INFINITY.to_bits(), f64::NEG_INFINITY.to_bits(), f64::MAX.to_bits(), f64::MIN.to_bits(), (-0.0f64).to_bits(), 1e300f64.to_bits()]),
    ];
    let y32 = prop_oneof![
        6 => (k(), frac(), -2i64..=2).prop_map(|(k, f, u)| {
            let v = (k as f64 + f as f64 / 256.0) as f32;
            if v == 0.0 { v.to_bits() } else { (v.to_bits() as i64 + u) as u32 }
        }),
        2 => (any::<bool>(), 0u32..0xFF, any::<u32>()).prop_map(|(n, e, m)| ((n as u32) << 31) | (e << 23) | (m & ((1 << 23) - 1))),
        1 => proptest::sample::select(vec![f32::INFINITY.to_bits(), f32::NEG_INFINITY.to_bits(), f32::MAX.to_bits(), f32::MIN.to_bits(), (-0.0f32).to_bits()]),
    ];
    (x64, y32).prop_map(|(x, y)| OtCase { x, y })
}

/// exact floor(x + 1/2), +-BIG for infinities / huge values
fn ot_exact(x: f64) -> i128 {
    if x.is_infinite() {
        return if x < 0.0 { -BIG } else { BIG };
    }
    let (m, e) = decomp(x);
    round_half_up(m, e)
}

fn test_ot(c: &OtCase, stats: &Stats) -> CaseResult {
    let x = f64::from_bits(c.x);
    let y = f32::from_bits(c.y);
    let mut nt = false;
    // f64 impls
    let x_ok = !x.is_nan() && x != pred_half64();
    if x.is_nan() {
        stats.class("ot:nan_skipped");
    } else if !x_ok {
        stats.class("ot:pred_half_outside_exact_sum_domain");
    } else {
        let r = ot_exact(x);
        let i: i16 = x.ot_round();
        chk!(i as i128 == r.clamp(i16::MIN as i128, i16::MAX as i128), "ot_round-f64-i16", "OtRound<i16>::ot_round({x:e}) = {i}, floor(x+1/2) = {r} saturated to i16");
        let u: u16 = x.ot_round();
        chk!(u as i128 == r.clamp(0, u16::MAX as i128), "ot_round-f64-u16", "OtRound<u16>::ot_round({x:e}) = {u}, floor(x+1/2) = {r} saturated to u16");
        if x.abs() <= (1u64 << 51) as f64 {
            let f: f64 = x.ot_round();
            chk!(f == r as f64, "ot_round-f64-f64", "OtRound<f64>::ot_round({x:e}) = {f:e}, floor(x+1/2) = {r}");
            stats.class("ot:f64_to_float");
        }
        if r.abs() > 70_000 {
            stats.class("ot:f64_saturating");
        }
        if x < 0.0 {
            nt = true;
            stats.class("ot:negative");
        }
        if x.fract().abs() == 0.5 {
            nt = true;
            stats.class(if x < 0.0 { "ot:negative_half" } else { "ot:positive_half" });
        }
    }
    // f32 impls
    let y_ok = !y.is_nan() && y != pred_half32();
    if y_ok {
        let r = ot_exact(y as f64);
        let i: i16 = y.ot_round();
        chk!(i as i128 == r.clamp(i16::MIN as i128, i16::MAX as i128), "ot_round-f32-i16", "OtRound<i16>::ot_round({y:e}f32) = {i}, floor(x+1/2) = {r} saturated to i16");
        let u: u16 = y.ot_round();
        chk!(u as i128 == r.clamp(0, u16::MAX as i128), "ot_round-f32-u16", "OtRound<u16>::ot_round({y:e}f32) = {u}, floor(x+1/2) = {r} saturated to u16");
        if y.abs() <= (1u32 << 22) as f32 {
            let f: f32 = y.ot_round();
            chk!(f as f64 == r as f64, "ot_round-f32-f32", "OtRound<f32>::ot_round({y:e}f32) = {f:e}, floor(x+1/2) = {r}");
            stats.class("ot:f32_to_float");
        }
        if y < 0.0 {
            nt = true;
        }
        if y.fract().abs() == 0.5 {
            nt = true;
            stats.class(if y < 0.0 { "ot:negative_half" } else { "ot:positive_half" });
        }
    }
    // kurbo: component-wise
    if x_ok && y_ok {
        let (rx, ry) = (ot_exact(x), ot_exact(y as f64));
        let p: (i16, i16) = kurbo::Point::new(x, y as f64).ot_round();
        chk!(p.0 as i128 == rx.clamp(i16::MIN as i128, i16::MAX as i128) && p.1 as i128 == ry.clamp(i16::MIN as i128, i16::MAX as i128),
            "ot_round-point", "OtRound for kurbo::Point({x:e}, {:e}) = {p:?}, component-wise floor(v+1/2) = ({rx}, {ry})", y as f64);
        if x.abs() <= (1u64 << 51) as f64 && (y as f64).abs() <= (1u64 << 51) as f64 {
            let v: kurbo::Vec2 = kurbo::Vec2::new(y as f64, x).ot_round();
            chk!(v.x == ry as f64 && v.y == rx as f64, "ot_round-vec2", "OtRound for kurbo::Vec2({:e}, {x:e}) = {v:?}, component-wise floor(v+1/2) = ({ry}, {rx})", y as f64);
        }
    }
    if nt {
        nontrivial_sampled(stats, "ot", hash_json(c));
        if x_ok && S_OT.load(std::sync::atomic::Ordering::Relaxed) < 2 && sample_slot(&S_OT, stats) {
            let i: i16 = x.ot_round();
            stats.sample(json!({"stage": "ot-round", "x": x, "ot_round_i16": i, "y_f32": y as f64}));
        }
    }
    Ok(())
}

// ---------------------------------------------------------------------------------------------------------------------
// constructors

#[derive(Clone, Debug, Serialize, Deserialize)]
struct ConsCase {
    u: u32,
    i: i32,
    l: i64,
}

fn cons_strategy() -> impl Strategy<Value = ConsCase> {
    let u = prop_oneof![2 => any::<u32>(), 2 => 0xFF_FFF0u32..=0x100_0010, 1 => 0u32..=0x100_0000, 1 => (0u32..32).prop_map(|k| 1u32 << k), 1 => (0u32..32).prop_map(|k| u32::MAX >> k)];
    let i = prop_oneof![
        2 => any::<i32>(),
        2 => 0x7F_FFF0i32..=0x80_0010,
        2 => -0x80_0010i32..=-0x7F_FFF0,
        1 => -0x100_0000i32..=0x100_0000,
        1 => (0u32..32).prop_map(|k| (1u32 << k) as i32),
        1 => (0u32..31).prop_map(|k| -(1i32 << k)),
    ];
    let l = prop_oneof![3 => any::<i64>(), 1 => -4i64..=4, 1 => (0u32..64).prop_map(|k| (1u64 << k) as i64), 1 => (0u32..64).prop_map(|k| (u64::MAX >> k) as i64)];
    (u, i, l).prop_map(|(u, i, l)| ConsCase { u, i, l })
}

fn test_cons(c: &ConsCase, stats: &Stats) -> CaseResult {
    let wu = c.u.min(0xFF_FFFF);
    let inr_u = c.u <= 0xFF_FFFF;
    chk!(Uint24::new(c.u).to_u32() == wu, "int24-saturate", "Uint24::new({:#x}) = {:#x}, saturating value {wu:#x}", c.u, Uint24::new(c.u).to_u32());
    chk!(Uint24::checked_new(c.u).map(|v| v.to_u32()) == inr_u.then_some(c.u), "int24-saturate", "Uint24::checked_new({:#x}) = {:?}", c.u, Uint24::checked_new(c.u));
    chk!(Uint24::try_from(c.u as usize).ok().map(|v| v.to_u32()) == inr_u.then_some(c.u), "int24-saturate", "Uint24::try_from({:#x}usize) = {:?}", c.u, Uint24::try_from(c.u as usize).ok());
    let big = (c.u as usize) << 20;
    chk!(Uint24::try_from(big).ok().map(|v| v.to_u32() as usize) == (big <= 0xFF_FFFF).then_some(big), "int24-saturate", "Uint24::try_from({big:#x}usize) = {:?}", Uint24::try_from(big).ok());
    let wi = (c.i as i64).clamp(-0x80_0000, 0x7F_FFFF);
    let inr_i = wi == c.i as i64;
    chk!(Int24::new(c.i).to_i32() as i64 == wi, "int24-saturate", "Int24::new({}) = {}, saturating value {wi}", c.i, Int24::new(c.i).to_i32());
    chk!(Int24::checked_new(c.i).map(|v| v.to_i32()) == inr_i.then_some(c.i), "int24-saturate", "Int24::checked_new({}) = {:?}", c.i, Int24::checked_new(c.i));
    // saturated values encode as the extreme 24-bit patterns
    let b = Int24::new(c.i).to_be_bytes();
    chk!(twos(be_val(&b), 24) == wi, "int24-saturate", "Int24::new({}).to_be_bytes() = {b:02x?}, want the encoding of {wi}", c.i);
    let b = Uint24::new(c.u).to_be_bytes();
    chk!(be_val(&b) == wu as u64, "int24-saturate", "Uint24::new({:#x}).to_be_bytes() = {b:02x?}", c.u);
    // 64-bit
    let raw = [(c.l >> 56) as u8, (c.l >> 48) as u8, (c.l >> 40) as u8, (c.l >> 32) as u8, (c.l >> 24) as u8, (c.l >> 16) as u8, (c.l >> 8) as u8, c.l as u8];
    let v = scalar_rt::<i64, 8>("i64", raw)?;
    chk!(v == c.l, "scalar-decode", "i64: bytes {raw:02x?} decode to {v}, want {}", c.l);
    let d = scalar_rt::<LongDateTime, 8>("LongDateTime", raw)?;
    chk!(d.as_secs() == c.l && LongDateTime::new(c.l).to_be_bytes() == raw, "scalar-decode", "LongDateTime: bytes {raw:02x?} decode to {}, want {}", d.as_secs(), c.l);
    let m = c.l.wrapping_mul(0x9E37_79B9_7F4A_7C15u64 as i64) ^ (c.u as i64);
    ord_chk!("LongDateTime", LongDateTime::new, c.l, m);
    if !inr_u {
        stats.class("construct:uint24_saturates");
    }
    if !inr_i {
        stats.class(if c.i < 0 { "construct:int24_saturates_low" } else { "construct:int24_saturates_high" });
    }
    if !inr_u || !inr_i || c.i < 0 || c.l < 0 {
        nontrivial_sampled(stats, "construct", hash_json(c));
        if (!inr_u || !inr_i) && S_CONS.load(std::sync::atomic::Ordering::Relaxed) < 2 && sample_slot(&S_CONS, stats) {
            stats.sample(json!({"stage": "construct", "u32": c.u, "Uint24::new": Uint24::new(c.u).to_u32(), "i32": c.i, "Int24::new": Int24::new(c.i).to_i32()}));
        }
    }
    Ok(())
}

// ---------------------------------------------------------------------------------------------------------------------

fn main() {
    let ctx = Ctx::from_args("C15");
    ctx.set_rule(
        "Exhaustive index stages: one case = one block of bit patterns (scalar16: 1024 of the 2^16; scalar24: 65536 of the 2^24; fixed32: one high half-word x all 65536 \
         low half-words in the thorough tier, x 26 boundary + 4096 strided low half-words in quick, the 12 blocks around 0, MIN and MAX always complete); arith-grid: one case = \
         one grid value a, checked against every (b) and (b,c) of the boundary grid (0, +-1, +-0x7FFF, +-0x8000, +-0x8001, +-0xFFFF, +-0x10000, 2^k, 2^k+-1, 3*2^k, 5*2^k, MIN, MAX, ...). \
         Proptest stages: operands uniform / small / grid+-delta / log-uniform (every bit length 0..=31 per operand independently, divisors also next to MAX/MIN) / products and rounded numerators placed within +-2^27 of a power of two 2^t (t = 31, 32, 47, 48, 15, 16 weighted, any 2..62) / Div quotients next to 2^t / constructed exact halves (a*b = odd*2^15, a = e(2q+1) & b = e*2^17, c = 2a & b odd) and the same moved by one unit; \
         floats built as (k + j/256)/ONE moved by -3..3 ulp, arbitrary in-range bit patterns, (MIN|MAX + j/4)/ONE +- ulps, and arbitrary magnitudes beyond the range incl. +-inf (expected: saturation to MIN/MAX = the nearest representable value). Non-trivial: the operand tuple / input contains a negative value or an exact half-way \
         case (blocks of the exhaustive stages always do: one hash per block; proptest stages: one hash in eight is kept, `*:nontrivial_cases` counts all). Binary results are compared only when the exact result is representable in 32 bits.",
    );
    ctx.assume("expected values: big-endian two's complement decoding and value = bits/2^fraction_bits per the OpenType data types, exact i128 / dyadic rational arithmetic in the harness; rustc's IEEE-754 float<->int `as` casts are trusted only for exactly representable values");
    ctx.assume("F26Dot6 `*` and `/` are FreeType FT_MulFix/FT_DivFix (scale 2^16, shared macro with Fixed) and are checked as a*b/2^16 and a*2^16/b; `mul_div` is scale free");
    ctx.assume("exact halves in from_f32/from_f64 may resolve to either neighbour (the statement says nearest); Fixed::round/to_i32/to_f26dot6 are required to return a nearest value only where value + 1/2 unit does not leave the 32-bit range (the code wraps there by explicit wrapping_add); to_f2dot14 is compared where (x+2)>>2 fits 16 bits");
    ctx.assume("OtRound is checked as exact floor(x+1/2) on the inputs where the IEEE sum x+0.5 cannot change the result: every finite x except pred(0.5) for the integer targets, |x| <= 2^51 (f64) / 2^22 (f32) for the float targets; NaN is skipped");

    // exhaustive 8/16-bit and 24-bit spaces
    ctx.index_stage("scalar16", Isolation::Threads, 64, |i| Blk { start: (i as u32) * 1024, len: 1024 }, test16);
    ctx.index_stage("scalar24", Isolation::Threads, 256, |i| Blk { start: (i as u32) << 16, len: 1 << 16 }, test24);

    // 32-bit space
    let thorough = !ctx.quick();
    let always_full = |hi: u16| matches!(hi, 0xFFFA..=0xFFFF | 0x0000..=0x0005 | 0x7FFE | 0x7FFF | 0x8000 | 0x8001);
    ctx.index_stage("fixed32", Isolation::Threads, ctx.n(65536, 65536).min(65536), |i| {
        // visit the blocks in a bit-reversed order so that a scaled-down run still spreads over the whole range
        let hi = (i as u16).reverse_bits();
        Blk32 { hi, full: thorough || always_full(hi) }
    }, test32);

    // binary arithmetic
    let g = grid();
    ctx.index_stage("arith-grid", Isolation::Threads, g.len() as u64, |i| GridCase { a: g[i as usize] }, test_grid);
    ctx.prop_stage("arith-random", Isolation::Threads, ctx.n(6_000_000, 40_000_000), ops_strategy, test_ops);

    // floats
    ctx.prop_stage("float-conv", Isolation::Threads, ctx.n(2_000_000, 15_000_000), float_strategy, test_float);
    let lim = limit_cases();
    ctx.index_stage("float-limits", Isolation::Threads, lim.len() as u64, |i| lim[i as usize].clone(), test_float);
    ctx.index_stage("below-half", Isolation::Threads, 10, |i| FloatCase { ty: (i / 2) as u8, bits: i % 2 }, test_below_half);
    ctx.prop_stage("ot-round", Isolation::Threads, ctx.n(2_000_000, 15_000_000), ot_strategy, test_ot);
    ctx.prop_stage("construct", Isolation::Threads, ctx.n(500_000, 5_000_000), cons_strategy, test_cons);

    let mut exhaustive = vec!["scalar16: all 2^8 / 2^16 bit patterns of every 8- and 16-bit scalar", "scalar24: all 2^24 bit patterns of Uint24/Int24/Offset24", "arith-grid: the complete grid^2 / grid^3"];
    if thorough {
        exhaustive.push("fixed32: all 2^32 bit patterns of Fixed, F26Dot6 and the 32-bit scalars");
    }
    ctx.note("exhaustive_stages", json!(exhaustive));
    ctx.note("grid_size", json!(g.len()));
    ctx.note("grid_contains_i32_min", json!(g.contains(&i32::MIN)));
    ctx.finish();
}
