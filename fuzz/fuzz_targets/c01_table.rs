#![no_main]
use libfuzzer_sys::fuzz_target;
fuzz_target!(|data: &[u8]| {
    vtotal::fuzzing::c01_table(data);
});
