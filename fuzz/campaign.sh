#!/bin/bash
# campaign.sh <target> <seconds> <workers> [seed]  — coverage-guided campaign; crashes land in artifacts/<target>/, and each
# unknown failure has already been written as a replay file under /verif/replay_out/<property>/ by the target itself.
set -u
cd "$(dirname "$(readlink -f "$0")")"
T="$1"; SECS="$2"; J="$3"; SEED="${4:-1}"
mkdir -p corpus/$T artifacts/$T work/$T
export RUSTFLAGS="--cfg googlefonts_fontations_verif" CARGO_NET_OFFLINE=true
MAXLEN=131072; [ "$T" = c02_ift ] && MAXLEN=8192; [ "$T" = c13_colr ] && MAXLEN=65536
exec cargo +nightly fuzz run --fuzz-dir /verif/fuzz "$T" -- -max_total_time="$SECS" -fork="$J" -ignore_crashes=1 -ignore_timeouts=1 -ignore_ooms=1 \
  -timeout=60 -rss_limit_mb=4096 -len_control=0 -max_len=$MAXLEN -seed="$SEED" -print_final_stats=1 -artifact_prefix=artifacts/$T/
