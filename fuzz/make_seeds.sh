#!/bin/bash
# seed corpora for the coverage-guided targets (control block appended at the end of each real font so real fonts are valid seeds)
set -e
cd "$(dirname "$(readlink -f "$0")")"
for t in c01_file c01_table c02_skrifa c02_ift c13_colr; do mkdir -p corpus/$t; done
python3 - <<'PY'
import os, glob, struct, hashlib
def fonts():
    for d in ['/repo/font-test-data/test_data/ttf','/repo/font-test-data/test_data/ttc','/repo/klippa/test-data/fonts']:
        for p in sorted(glob.glob(d+'/*')):
            if p.lower().endswith(('.ttf','.otf','.ttc')) and os.path.getsize(p) <= 120000:
                yield p, open(p,'rb').read()
def tables(data):
    if data[:4]==b'ttcf' or len(data)<12: return
    n=struct.unpack('>H',data[4:6])[0]
    for i in range(n):
        r=12+16*i
        if r+16>len(data): return
        tag=data[r:r+4]; off,ln=struct.unpack('>II',data[r+8:r+16])
        yield tag, data[off:off+ln]
TAGS=[b"head", b"name", b"hhea", b"vhea", b"VORG", b"fvar", b"avar", b"HVAR", b"VVAR", b"MVAR", b"maxp", b"OS/2", b"post", b"gasp", b"glyf", b"gvar", b"cvar", b"cmap", b"GDEF", b"GPOS",
    b"GSUB", b"feat", b"ltag", b"ankr", b"COLR", b"CPAL", b"CBLC", b"CBDT", b"EBLC", b"EBDT", b"STAT", b"SVG ", b"VARC", b"IFT ", b"meta", b"BASE", b"CFF ", b"CFF2", b"hmtx", b"loca"]
def w(t,name,b):
    open(f'corpus/{t}/{name}','wb').write(b)
for p,d in fonts():
    h=hashlib.md5(d).hexdigest()[:12]
    w('c01_file',h,d+bytes(16))
    for k in range(4):
        tail=bytes([0,0,0,k, 0, [3,0,4,12][k], 0,0,0,0, 1, 0x40,0,0,0,0, 1, k, k+1, k&1, [0,1,4,11][k], k%3, 0,1])
        w('c02_skrifa',f'{h}-{k}',d+tail)
    for tag,td in tables(d):
        if tag in TAGS and len(td)<=60000:
            w('c01_table',hashlib.md5(td).hexdigest()[:12], td+bytes(16)+bytes([TAGS.index(tag)]))
        if tag==b'COLR' and len(td)<=60000:
            w('c13_colr',hashlib.md5(td).hexdigest()[:12], td+bytes(8))
PY
echo "seeds written: $(ls corpus/*/ | wc -l) files"
