#!/bin/bash
# builds the whole framework offline from files on disk
set -e
cd "$(dirname "$(readlink -f "$0")")/harness"
export CARGO_NET_OFFLINE=true
cargo build --release
if [ -f vcheck/src/bin/c20.rs ]; then cargo build --profile strict -p vcheck --bin c20; fi
