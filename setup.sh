#!/bin/bash
# builds the whole framework offline from files on disk
set -e
cd "$(dirname "$(readlink -f "$0")")/harness"
export CARGO_NET_OFFLINE=true
cargo build --release
cargo build --profile strict -p vtotal --bin c20
# seed corpora for the coverage-guided targets (used by the thorough tiers)
../fuzz/make_seeds.sh >/dev/null && ./target/release/mkseeds
