#!/usr/bin/env python3
"""Regenerates MANIFEST.json from the table below (single source of truth for what is claimed)."""
import json

# id -> (technique, level text, level note, design ref)
CHECKS = {
 "C06": ("proptest-generated add_raw/copy_missing_tables histories vs an independent sfnt reader + checksum oracle",
         "Exploration: tens of thousands (quick) to hundreds of thousands (thorough) of generated tag->bytes maps and builder call sequences; each output is checked by an independent sfnt parser/checksummer written in the harness and by re-opening it with FontRef. Finite sampling of an infinite space, no proof.",
         "Trusts the harness's own ~100-line sfnt reader and checksum routine (vcore::sfnt) and proptest's generators; FontRef::new/table_data are part of what is checked, not trusted.",
         "DESIGN.md §4 C06"),
}
NOT_YET = {}  # id -> reason

ALL = ["C%02d" % i for i in range(1, 21)]
m = {
 "version": 1,
 "setup_cmd": "./setup.sh",
 "hooks": {
   "guard": "--cfg googlefonts_fontations_verif",
   "enable": "RUSTFLAGS=--cfg googlefonts_fontations_verif (set in /verif/harness/.cargo/config.toml [build] rustflags; the harness builds the /repo crates as path dependencies)",
   "baseline_off_cmd": "cd /repo && cargo test --workspace --no-fail-fast --offline",
   "source_commits": [],
   "add_only": True,
 },
 "engines": [
   {"name": "vcheck", "path": "/verif/harness", "serves_properties": sorted(CHECKS),
    "kind_free_text": "Rust harness (path-deps on /repo crates): seeded proptest shards with manual shrinking, enumeration stages, crash/hang-isolating worker subprocesses, independent oracles; one binary per property"},
 ],
 "checks": [],
 "not_applicable": [],
 "notes": "All random choices derive from VERIF_SEED. Exit 0 = held on everything explored, 1 = VIOLATION line(s), 2 = infrastructure trouble. Known findings: /verif/known_findings.json.",
}
try:
    hooks = json.load(open('/verif/hooks.json'))
    m["hooks"]["source_commits"] = hooks.get("source_commits", [])
except Exception:
    pass
for pid in ALL:
    if pid in CHECKS:
        tech, text, note, ref = CHECKS[pid]
        m["checks"].append({
          "property_id": pid,
          "quick_cmd": f"./check {pid} --tier quick",
          "thorough_cmd": f"./check {pid} --tier thorough",
          "evidence_file": f"/verif/evidence/{pid}.json",
          "replay_cmd_template": f"./check {pid} --replay {{path}}",
          "engine": "vcheck",
          "level_claimed": {"category": "exploration", "text": text, "design_ref": ref},
          "level_note": note,
          "technique": tech,
        })
    else:
        m["not_applicable"].append({"property_id": pid, "reason": NOT_YET.get(pid, "check not built yet in this session (planned, see DESIGN.md §4); not claimed until its check runs clean on the unchanged tree")})
json.dump(m, open('/verif/MANIFEST.json', 'w'), indent=1)
print("claimed:", sorted(CHECKS))
