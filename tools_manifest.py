#!/usr/bin/env python3
"""Regenerates MANIFEST.json from the table below (single source of truth for what is claimed)."""
import json

# id -> (technique, level text, level note, design ref)
CHECKS = {
 "C01": ("mutation-based generated-input search (truncation/field sweeps, proptest havoc) + libFuzzer (thorough) against a no-panic/no-hang + digest-purity oracle",
         "Exploration: every cut length and every boundary-valued 16/32-bit field of every table of ~80 corpus fonts (enumerated), tens of thousands of proptest havoc mutations, each observed through the whole-file route (generic get_field traversal of every table graph + the hand-written helper families) or as a raw payload read as 239 plain + 24 argument-taking table types; crash/hang-isolating worker processes; purity by recomputing the observation digest on repeat, at byte offsets 1..3 and on a second thread. Sampling, no proof.",
         "Trusts the harness observer (vtotal::observe), the 20 s/100 s CPU budgets as the definition of a hang, and libFuzzer for the coverage-guided part; iterators are consumed through take(70000) and traversals through a node budget.",
         "DESIGN.md §4 C01"),
 "C02": ("generated hostile fonts x generated argument records (proptest) + libFuzzer (thorough); oracle: no panic/abort/hang, errors only as values",
         "Exploration: corpus fonts unmutated / swept / havoc-mutated crossed with generated argument records (glyph ids, sizes incl. non-finite, coordinate vectors, engine x target x pedantic, caller memory of every length class and misalignment, path styles, fresh / reconfigured / foreign hinting instances) driving all MetadataProvider queries, draws and colour paints; IFT client over the repository's mapping/patch fixtures under byte edits x generated subset definitions x decoders incl. one failing at call k; shared-brotli decoder on mutated streams. Worker processes attribute aborts/hangs. Sampling, no proof.",
         "Trusts the harness drivers (vtotal::skdrive, vtotal::iftdrive) and the CPU budgets as the definition of a hang; colour paints run under a callback budget.",
         "DESIGN.md §4 C02"),
 "C03": ("differential testing against FreeType (via fauntlet's adapters) over an enumerated font x glyph x ppem x mode grid",
         "Exploration (differential): every glyph of every static outline font of the corpus (+ vendored DejaVu/Liberation/FiraSans) at a seeded 40-size sample (quick) or the full 285-size grid (thorough) per mode, in font units, unhinted, interpreter x 5 targets, and the autohinter on the frozen agreement fonts; exact equality of regularised paths and advances with FreeType 2.12.1. Known discrepancies of the unchanged tree are listed findings, excluded by construction and reproduced in a dedicated stage.",
         "Trusts FreeType 2.12.1 as built by freetype-sys (the comparison tool's baseline) and fauntlet's RegularizingPen normalisation; a frozen corpus, not all fonts.",
         "DESIGN.md §4 C03"),
 "C06": ("proptest-generated add_raw/copy_missing_tables histories vs an independent sfnt reader + checksum oracle",
         "Exploration: tens of thousands (quick) to hundreds of thousands (thorough) of generated tag->bytes maps and builder call sequences; each output is checked by an independent sfnt parser/checksummer written in the harness and by re-opening it with FontRef. Finite sampling of an infinite space, no proof.",
         "Trusts the harness's own ~100-line sfnt reader and checksum routine (vcore::sfnt) and proptest's generators; FontRef::new/table_data are part of what is checked, not trusted.",
         "DESIGN.md §4 C06"),
 "C08": ("proptest-generated mappings (run-structured, boundary-rich) vs a model map; full-BMP lookup sweep per case",
         "Exploration: ~15 k (quick) / ~115 k (thorough) generated character maps, each compiled and checked on all 65 536 BMP code points plus a boundary set, through Cmap/Cmap4/Cmap12 lookups and iterators, skrifa Charmap/MappingIndex, and generated Cmap14 variation-sequence tables. Sampling, no proof.",
         "Trusts the BTreeMap model and vcore::fontkit's hand-encoded maxp/head; the table-level U+FFFF sentinel answer Some(0) is treated as unmapped as the property allows.",
         "DESIGN.md §4 C08"),
 "C09": ("proptest-generated glyph lists / paths vs read-back equality, an own canonical-length oracle and geometric path equality",
         "Exploration: hundreds of thousands of generated glyph lists (simple/composite/empty; delta classes; flag runs > 255; sizes straddling the short-loca limit) through GlyfLocaBuilder and read back; generated line/quad paths drawn unscaled through skrifa and compared geometrically. Sampling, no proof.",
         "Trusts the harness's reference TrueType contour-to-path conversion and canonical shortest-length computation; composite instructions cannot be generated through the public API.",
         "DESIGN.md §4 C09"),
 "C13": ("proptest-generated COLR paint graphs (cycles, sharing, all 32 formats) + byte havoc on corpus COLR tables vs a recording painter with a LIFO-balance oracle",
         "Exploration: hundreds of thousands of generated paint graphs hand-assembled into COLR tables and painted with a typed-stack recorder (balance on Ok; Err required for reachable cycles when every cached-glyph answer is Unimplemented); corpus COLR fonts unmutated and under COLR-table havoc; libFuzzer on raw COLR bytes (thorough). Sampling, no proof.",
         "Trusts the harness COLR assembler (vtotal::colrgen) and its cycle-reachability computation; paints are cut at a 300000-callback budget (not a verdict).",
         "DESIGN.md §4 C13"),
 "C15": ("exhaustive enumeration of 8/16/24-bit (and, thorough, all 2^32 fixed) values + boundary grid and proptest operands vs an i128 / exact-dyadic reference",
         "Exploration, partly exhaustive: every 8/16/24-bit pattern of every scalar type; all 2^32 Fixed/F26Dot6 patterns for conversions in thorough (strided + boundary blocks in quick); 340-value boundary grid squared/cubed plus millions of generated operands for Mul/Div/mul_div against exact i128 arithmetic rounded half away from zero; OtRound against exact floor(x+1/2).",
         "Trusts the in-file reference arithmetic (never calls the library); float ties accept either neighbour only where the documentation does not fix the direction.",
         "DESIGN.md §4 C15"),
 "C20": ("the generators of C01/C02/C13 + the klippa plan step re-run in an overflow-checked, assertion-enabled build; libFuzzer (thorough)",
         "Exploration: exactly the stages of C01, C02 and C13 plus klippa::Plan::new on mutated fonts, compiled with overflow-checks and debug-assertions on; a failure is a panic with an overflow-check or assertion message (other panics are release-profile panics owned by C01/C02/C13). Sampling; the tail of reachable overflow sites is long (see DESIGN.md).",
         "Trusts the message-based classification of panics; harness arithmetic is explicitly wrapping so overflow panics can only come from the crates under test.",
         "DESIGN.md §4 C20"),
}

CHECKS.update({
 "C04": ("generated-value round-trip search: corpus tables + proptest recipes for 32 table / record kinds incl. the glyf SimpleGlyph record (strong check) and parse-first mutated tables (idempotence) vs dump->read->equality + re-dump byte equality",
         "Exploration: every writable top-level table of every corpus font, ~160 k (quick) generated values over 32 table and record kinds / versions / formats with null and non-null offsets, and ~180 k field-sweep / havoc mutated tables parsed first; oracle is structural equality after dump_table + read (implied-length arrays on the written prefix) and byte equality of the re-dump. Sampling, no proof.",
         "Trusts the Debug-tree comparator and its documented allowances (implied-length arrays; repacked GPOS/GSUB only counted); values that only corrupt bytes produce (inconsistent counts) are checked for idempotence only.",
         "DESIGN.md §4 C04"),
 "C05": ("exhaustive small DAG shapes over a size alphabet straddling 64 KiB + proptest random DAGs / big Gpos tables vs an independent byte walker (public FontWrite route and the mock-graph hook)",
         "Exploration, partly exhaustive: all rooted DAG shapes with <= 4 (thorough: 5) nodes x size alphabet x link widths, random DAGs with sharing, 24-bit boundary graphs and Gpos tables that force splitting and extension promotion; every offset must land on a byte-for-byte copy of its target, layout must tile the output; panics on acyclic graphs are violations, PackingFailed is allowed.",
         "Trusts the harness byte walker; hook H2 (pack_mock_graph) is additional, the public dump_table route needs no hook. Two listed findings (mixed-width and nested 32-bit targets) are tolerated only when their structural predicate holds.",
         "DESIGN.md §4 C05"),
})

CHECKS.update({
 "C07": ("generated compilation recipes re-run under an owned object-id gap schedule (hook H1), after unrelated work, on real threads and in fresh processes; oracle: byte equality",
         "Exploration with an owned schedule: tens of thousands of generated values (layout/name/STAT/COLR/IVS tables, GPOS builders past 64 KiB, gvar, mock graphs, FontBuilder inputs, klippa subsets) are compiled once and recompiled under generated id-gap plans (the observable effect of any interleaving on the global object counter), after unrelated compilations, on 2..24 real threads and in >= 8 fresh processes (fresh hash seeds); all outputs must be byte-identical.",
         "Hook H1 (push_id_gaps) owns the only cross-thread state that exists today; real-thread and fresh-process stages sample whatever else a change might introduce.",
         "DESIGN.md §4 C07"),
 "C10": ("exhaustive small contours + proptest random contours / gvar inputs / locations vs exact-rational (i128 fraction) IUP inference, an independent gvar decoder and exact tent arithmetic",
         "Exploration, partly exhaustive: every contour of five finite alphabets through iup_delta_optimize; random multi-contour cases; GlyphVariations -> Gvar -> bytes decoded by an independent spec decoder and by read-fonts (peaks, point numbers, run/gap boundaries, shared points, short/long offsets); drawn outlines at generated locations vs default + sum(scalar*delta) in exact rationals with a bound derived from the fixed-point widths.",
         "Trusts the in-file rational arithmetic, the spec transcription of IUP inference and packed point/delta decoding, and vcore::fontkit's hand-encoded fvar/head/maxp.",
         "DESIGN.md §4 C10"),
 "C11": ("proptest-generated delta-set multisets / axis records / segment maps / HVAR fonts vs an independent byte-level row decoder and exact-rational tent, normalisation and interpolation arithmetic",
         "Exploration: generated VariationStoreBuilder inputs (up to > 65 535 rows, both index modes) built, compiled and read back through the returned remap with an independent row decoder; compute_delta vs exact rational sums; axis normalisation and avar segment maps at boundaries and between points; skrifa metrics on fonts with hand-assembled HVAR (with/without index maps) for all glyph ids incl. beyond the long-metric and glyph counts.",
         "Trusts the harness's rational arithmetic and its hand encoders for avar/HVAR/DeltaSetIndexMap; bounds are derived from the fixed-point widths, not tuned.",
         "DESIGN.md §4 C11"),
 "C12": ("metamorphic generated-history search: draw under generated reconfigure histories / buffers / zero locations / threads / fresh processes vs a fresh-instance baseline (bit equality)",
         "Exploration: 61 corpus fonts (incl. heavily instructed ones) and three hand-assembled instructed fonts x generated configurations; every variation (caller memory of all fill patterns and alignments, all-zero location, 0..6 prior reconfigures incl. other fonts/formats, prior draws, clones, 8..12 threads sharing one instance, fresh processes) must reproduce the baseline pen stream and metrics bit for bit; TrueType streams must be well-formed.",
         "Thread interleavings are sampled, not enumerated; the baseline is the library itself (metamorphic), so a defect affecting baseline and variation alike is C03's business.",
         "DESIGN.md §4 C12"),
 "C14": ("model-based operation histories (exhaustive to length 4 + proptest long histories) vs a range-list model; sparse-bit-set codec vs a spec transcription (differential) and round trip",
         "Exploration, partly exhaustive: all 1.85 M histories of length <= 4 over a 31-op alphabet spanning two page edges (thorough; seeded 1/20 stride in quick), random histories up to 200 steps over 8 element domains incl. a discontinuous one with the whole query surface compared after every step, Eq/Ord/Hash on independently built pairs, RangeSet invariants, codec round trips for all branch factors and millions of byte strings against the harness's transcription of the decoding algorithm.",
         "Trusts the harness's range-list model and its u128 transcription of the sparse-bit-set decoding algorithm; heights above the documented maximum are checked for no-panic only.",
         "DESIGN.md §4 C14"),
 "C16": ("proptest-generated glyph sets and pair / mark-base rule sets (up to several x 64 KiB; class-pair rules with overlapping classes in the stage pairpos-overlap) vs a reference lookup walker over the compiled bytes",
         "Exploration: coverage/class builders checked for every glyph 0..=65535; generated Gpos tables with PairPos (glyph and class rules, 1..8 value fields, devices/variation indices) and MarkToBase lookups, sized from tiny to several times the 16-bit offset limit, compiled through the public builders and evaluated by a harness walker (unwrapping extensions, formats 1/2, mark/base anchors) against the rule model incl. pairs without rules.",
         "Trusts the harness walker and rule model (first-match semantics as documented by the builders); large cases are query-sampled (all glyph-pair rules exactly, class cells against sampled second glyphs).",
         "DESIGN.md §4 C16"),
 "C17": ("proptest-generated subset requests over the corpus (plus corpus fonts with HVAR re-encoded over 3-4 variation data subtables) vs original-vs-subset observation equality through skrifa (hook H3 for the glyph renumbering); fixpoint re-subsetting",
         "Exploration: ~15 k (quick) / ~125 k (thorough) generated requests (character and glyph-id sets of all shapes, 16 flag combinations, sizes, locations) over 49 corpus fonts; the subset must open, keep requested glyphs + .notdef + component closure, map requested characters to renumbered glyphs and nothing else, and give bit-identical unhinted outlines, advances and side bearings for kept glyphs; requesting everything and re-subsetting a subset change nothing.",
         "Hook H3 exposes klippa's glyph map; the component closure is computed by a glyf parser in the harness; up to 160 kept glyphs per case are compared.",
         "DESIGN.md §4 C17"),
 "C18": ("model-based patch generation (patches generated together with the expected font) + decoder fault enumeration at every call k x every error kind; order/grouping permutations",
         "Exploration + fault enumeration: synthetic IFT fonts (glyf/loca, gvar, CFF/CFF2 INDEX, sizes planted at the widening limits) with hand-encoded mapping tables; generated table-keyed and glyph-keyed patches with a model of the result; every patched/untouched table and glyph compared; every decoder call failed with every DecodeError kind and wrong compatibility ids must give Err with the caller's status map untouched; permuted / regrouped applications must give identical tables.",
         "Trusts the harness's transparent decoder, its loca/gvar/INDEX decoders and the patch encoders; the built-in brotli decoder is exercised on the repository's fixture streams only.",
         "DESIGN.md §4 C18"),
 "C19": ("structured generation of format-1/2 mapping tables and subset-definition chains vs a reference intersection, metamorphic monotonicity, group invariants and a progress loop",
         "Exploration: generated mapping tables (all code-point encodings and branch factors, features, design-space segments, child trees, id deltas/strings, ignored flags, both tables present) x definition chains D1 <= D2 <= ... <= all; intersecting_patches must equal the harness's reference as a multiset, be monotone along the chain, select_next_patches must satisfy the grouping/maximality rules, and select->apply loops must make progress and terminate; byte-havoc tables are checked with the model-free oracles only.",
         "Trusts the harness's format-1/2 encoders and its reference intersection written from the rules quoted in the repository (the IFT specification text is not available offline).",
         "DESIGN.md §4 C19"),
})
NOT_YET = {}  # id -> reason

ALL = ["C%02d" % i for i in range(1, 21)]
m = {
 "version": 1,
 "setup_cmd": "./setup.sh",
 "hooks": {
   "guard": "--cfg googlefonts_fontations_verif",
   "enable": "RUSTFLAGS=--cfg googlefonts_fontations_verif (set in /verif/harness/.cargo/config.toml [build] rustflags; the harness builds the /repo crates as path dependencies)",
   "baseline_off_cmd": "cd /repo && cargo test --workspace --no-fail-fast --offline",
   "source_commits": [],
   "add_only": True,
 },
 "engines": [
   {"name": "vcheck", "path": "/verif/harness", "serves_properties": sorted(CHECKS),
    "kind_free_text": "Rust harness (path-deps on /repo crates): seeded proptest shards with manual shrinking, enumeration stages, crash/hang-isolating worker subprocesses, independent oracles; one binary per property"},
 ],
 "checks": [],
 "not_applicable": [],
 "notes": "All random choices derive from VERIF_SEED. Exit 0 = held on everything explored, 1 = VIOLATION line(s), 2 = infrastructure trouble. Known findings: /verif/known_findings.json.",
}
try:
    hooks = json.load(open('/verif/hooks.json'))
    m["hooks"]["source_commits"] = hooks.get("source_commits", [])
except Exception:
    pass
for pid in ALL:
    if pid in CHECKS:
        tech, text, note, ref = CHECKS[pid]
        m["checks"].append({
          "property_id": pid,
          "quick_cmd": f"./check {pid} --tier quick",
          "thorough_cmd": f"./check {pid} --tier thorough",
          "evidence_file": f"/verif/evidence/{pid}.json",
          "replay_cmd_template": f"./check {pid} --replay {{path}}",
          "engine": "vcheck",
          "level_claimed": {"category": "exploration", "text": text, "design_ref": ref},
          "level_note": note,
          "technique": tech,
        })
    else:
        m["not_applicable"].append({"property_id": pid, "reason": NOT_YET.get(pid, "check not built yet in this session (planned, see DESIGN.md §4); not claimed until its check runs clean on the unchanged tree")})
json.dump(m, open('/verif/MANIFEST.json', 'w'), indent=1)
print("claimed:", sorted(CHECKS))
