#!/usr/bin/env python3
"""Regenerates MANIFEST.json from the table below (single source of truth for what is claimed)."""
import json

# id -> (technique, level text, level note, design ref)
CHECKS = {
 "C01": ("mutation-based generated-input search (truncation/field sweeps, proptest havoc) + libFuzzer (thorough) against a no-panic/no-hang + digest-purity oracle",
         "Exploration: every cut length and every boundary-valued 16/32-bit field of every table of ~80 corpus fonts (enumerated), tens of thousands of proptest havoc mutations, each observed through the whole-file route (generic get_field traversal of every table graph + the hand-written helper families) or as a raw payload read as 239 plain + 24 argument-taking table types; crash/hang-isolating worker processes; purity by recomputing the observation digest on repeat, at byte offsets 1..3 and on a second thread. Sampling, no proof.",
         "Trusts the harness observer (vtotal::observe), the 20 s/100 s CPU budgets as the definition of a hang, and libFuzzer for the coverage-guided part; iterators are consumed through take(70000) and traversals through a node budget.",
         "DESIGN.md §4 C01"),
 "C02": ("generated hostile fonts x generated argument records (proptest) + libFuzzer (thorough); oracle: no panic/abort/hang, errors only as values",
         "Exploration: corpus fonts unmutated / swept / havoc-mutated crossed with generated argument records (glyph ids, sizes incl. non-finite, coordinate vectors, engine x target x pedantic, caller memory of every length class and misalignment, path styles, fresh / reconfigured / foreign hinting instances) driving all MetadataProvider queries, draws and colour paints; IFT client over the repository's mapping/patch fixtures under byte edits x generated subset definitions x decoders incl. one failing at call k; shared-brotli decoder on mutated streams. Worker processes attribute aborts/hangs. Sampling, no proof.",
         "Trusts the harness drivers (vtotal::skdrive, vtotal::iftdrive) and the CPU budgets as the definition of a hang; colour paints run under a callback budget.",
         "DESIGN.md §4 C02"),
 "C03": ("differential testing against FreeType (via fauntlet's adapters) over an enumerated font x glyph x ppem x mode grid",
         "Exploration (differential): every glyph of every static outline font of the corpus (+ vendored DejaVu/Liberation/FiraSans) at a seeded 40-size sample (quick) or the full 285-size grid (thorough) per mode, in font units, unhinted, interpreter x 5 targets, and the autohinter on the frozen agreement fonts; exact equality of regularised paths and advances with FreeType 2.12.1. Known discrepancies of the unchanged tree are listed findings, excluded by construction and reproduced in a dedicated stage.",
         "Trusts FreeType 2.12.1 as built by freetype-sys (the comparison tool's baseline) and fauntlet's RegularizingPen normalisation; a frozen corpus, not all fonts.",
         "DESIGN.md §4 C03"),
 "C06": ("proptest-generated add_raw/copy_missing_tables histories vs an independent sfnt reader + checksum oracle",
         "Exploration: tens of thousands (quick) to hundreds of thousands (thorough) of generated tag->bytes maps and builder call sequences; each output is checked by an independent sfnt parser/checksummer written in the harness and by re-opening it with FontRef. Finite sampling of an infinite space, no proof.",
         "Trusts the harness's own ~100-line sfnt reader and checksum routine (vcore::sfnt) and proptest's generators; FontRef::new/table_data are part of what is checked, not trusted.",
         "DESIGN.md §4 C06"),
 "C08": ("proptest-generated mappings (run-structured, boundary-rich) vs a model map; full-BMP lookup sweep per case",
         "Exploration: ~15 k (quick) / ~115 k (thorough) generated character maps, each compiled and checked on all 65 536 BMP code points plus a boundary set, through Cmap/Cmap4/Cmap12 lookups and iterators, skrifa Charmap/MappingIndex, and generated Cmap14 variation-sequence tables. Sampling, no proof.",
         "Trusts the BTreeMap model and vcore::fontkit's hand-encoded maxp/head; the table-level U+FFFF sentinel answer Some(0) is treated as unmapped as the property allows.",
         "DESIGN.md §4 C08"),
 "C09": ("proptest-generated glyph lists / paths vs read-back equality, an own canonical-length oracle and geometric path equality",
         "Exploration: hundreds of thousands of generated glyph lists (simple/composite/empty; delta classes; flag runs > 255; sizes straddling the short-loca limit) through GlyfLocaBuilder and read back; generated line/quad paths drawn unscaled through skrifa and compared geometrically. Sampling, no proof.",
         "Trusts the harness's reference TrueType contour-to-path conversion and canonical shortest-length computation; composite instructions cannot be generated through the public API.",
         "DESIGN.md §4 C09"),
 "C13": ("proptest-generated COLR paint graphs (cycles, sharing, all 32 formats) + byte havoc on corpus COLR tables vs a recording painter with a LIFO-balance oracle",
         "Exploration: hundreds of thousands of generated paint graphs hand-assembled into COLR tables and painted with a typed-stack recorder (balance on Ok; Err required for reachable cycles when every cached-glyph answer is Unimplemented); corpus COLR fonts unmutated and under COLR-table havoc; libFuzzer on raw COLR bytes (thorough). Sampling, no proof.",
         "Trusts the harness COLR assembler (vtotal::colrgen) and its cycle-reachability computation; paints are cut at a 300000-callback budget (not a verdict).",
         "DESIGN.md §4 C13"),
 "C15": ("exhaustive enumeration of 8/16/24-bit (and, thorough, all 2^32 fixed) values + boundary grid and proptest operands vs an i128 / exact-dyadic reference",
         "Exploration, partly exhaustive: every 8/16/24-bit pattern of every scalar type; all 2^32 Fixed/F26Dot6 patterns for conversions in thorough (strided + boundary blocks in quick); 340-value boundary grid squared/cubed plus millions of generated operands for Mul/Div/mul_div against exact i128 arithmetic rounded half away from zero; OtRound against exact floor(x+1/2).",
         "Trusts the in-file reference arithmetic (never calls the library); float ties accept either neighbour only where the documentation does not fix the direction.",
         "DESIGN.md §4 C15"),
 "C20": ("the generators of C01/C02/C13 + the klippa plan step re-run in an overflow-checked, assertion-enabled build; libFuzzer (thorough)",
         "Exploration: exactly the stages of C01, C02 and C13 plus klippa::Plan::new on mutated fonts, compiled with overflow-checks and debug-assertions on; a failure is a panic with an overflow-check or assertion message (other panics are release-profile panics owned by C01/C02/C13). Sampling; the tail of reachable overflow sites is long (see DESIGN.md).",
         "Trusts the message-based classification of panics; harness arithmetic is explicitly wrapping so overflow panics can only come from the crates under test.",
         "DESIGN.md §4 C20"),
}

CHECKS.update({
 "C04": ("generated-value round-trip search: corpus tables + proptest recipes for 31 table kinds (strong check) and parse-first mutated tables (idempotence) vs dump->read->equality + re-dump byte equality",
         "Exploration: every writable top-level table of every corpus font, ~160 k (quick) generated values over 31 table kinds / versions / formats with null and non-null offsets, and ~180 k field-sweep / havoc mutated tables parsed first; oracle is structural equality after dump_table + read (implied-length arrays on the written prefix) and byte equality of the re-dump. Sampling, no proof.",
         "Trusts the Debug-tree comparator and its documented allowances (implied-length arrays; repacked GPOS/GSUB only counted); values that only corrupt bytes produce (inconsistent counts) are checked for idempotence only.",
         "DESIGN.md §4 C04"),
 "C05": ("exhaustive small DAG shapes over a size alphabet straddling 64 KiB + proptest random DAGs / big Gpos tables vs an independent byte walker (public FontWrite route and the mock-graph hook)",
         "Exploration, partly exhaustive: all rooted DAG shapes with <= 4 (thorough: 5) nodes x size alphabet x link widths, random DAGs with sharing, 24-bit boundary graphs and Gpos tables that force splitting and extension promotion; every offset must land on a byte-for-byte copy of its target, layout must tile the output; panics on acyclic graphs are violations, PackingFailed is allowed.",
         "Trusts the harness byte walker; hook H2 (pack_mock_graph) is additional, the public dump_table route needs no hook. Two listed findings (mixed-width and nested 32-bit targets) are tolerated only when their structural predicate holds.",
         "DESIGN.md §4 C05"),
})
NOT_YET = {}  # id -> reason

ALL = ["C%02d" % i for i in range(1, 21)]
m = {
 "version": 1,
 "setup_cmd": "./setup.sh",
 "hooks": {
   "guard": "--cfg googlefonts_fontations_verif",
   "enable": "RUSTFLAGS=--cfg googlefonts_fontations_verif (set in /verif/harness/.cargo/config.toml [build] rustflags; the harness builds the /repo crates as path dependencies)",
   "baseline_off_cmd": "cd /repo && cargo test --workspace --no-fail-fast --offline",
   "source_commits": [],
   "add_only": True,
 },
 "engines": [
   {"name": "vcheck", "path": "/verif/harness", "serves_properties": sorted(CHECKS),
    "kind_free_text": "Rust harness (path-deps on /repo crates): seeded proptest shards with manual shrinking, enumeration stages, crash/hang-isolating worker subprocesses, independent oracles; one binary per property"},
 ],
 "checks": [],
 "not_applicable": [],
 "notes": "All random choices derive from VERIF_SEED. Exit 0 = held on everything explored, 1 = VIOLATION line(s), 2 = infrastructure trouble. Known findings: /verif/known_findings.json.",
}
try:
    hooks = json.load(open('/verif/hooks.json'))
    m["hooks"]["source_commits"] = hooks.get("source_commits", [])
except Exception:
    pass
for pid in ALL:
    if pid in CHECKS:
        tech, text, note, ref = CHECKS[pid]
        m["checks"].append({
          "property_id": pid,
          "quick_cmd": f"./check {pid} --tier quick",
          "thorough_cmd": f"./check {pid} --tier thorough",
          "evidence_file": f"/verif/evidence/{pid}.json",
          "replay_cmd_template": f"./check {pid} --replay {{path}}",
          "engine": "vcheck",
          "level_claimed": {"category": "exploration", "text": text, "design_ref": ref},
          "level_note": note,
          "technique": tech,
        })
    else:
        m["not_applicable"].append({"property_id": pid, "reason": NOT_YET.get(pid, "check not built yet in this session (planned, see DESIGN.md §4); not claimed until its check runs clean on the unchanged tree")})
json.dump(m, open('/verif/MANIFEST.json', 'w'), indent=1)
print("claimed:", sorted(CHECKS))
