#!/usr/bin/env python3
"""validate MANIFEST.json and evidence/*.json against the schemas (run with python3-vt)"""
import json, sys, glob, jsonschema
ok = True
def v(path, schema):
    global ok
    try:
        jsonschema.validate(json.load(open(path)), json.load(open(schema)))
        print("ok   ", path)
    except Exception as e:
        ok = False
        print("FAIL ", path, str(e)[:400])
v('/verif/MANIFEST.json', '/root/.vp/MANIFEST.schema.json')
for p in sorted(glob.glob('/verif/evidence/*.json')):
    v(p, '/root/.vp/EVIDENCE.schema.json')
sys.exit(0 if ok else 1)
